package lib

import (
	"cosmossdk.io/math"
)

// c20Wide converts a machine value to an unbounded integer.
func c20WideU(v uint64) math.Int { return math.NewIntFromUint64(v) }
func c20WideI(v int64) math.Int  { return math.NewInt(v) }

// c20Check: got must be the median of in (n >= 1) by the rank definition, computed in unbounded integers.
// Written branch-free (ndB2I/ndAnd/ndOr) so that the reference itself does not fork paths.
func c20Check(n int, wide []math.Int, got math.Int) {
	if n%2 == 1 {
		less, lessEq, member := 0, 0, false
		for i := 0; i < n; i++ {
			less += ndB2I(wide[i].LT(got))
			lessEq += ndB2I(wide[i].LTE(got))
			member = ndOr(member, wide[i].Equal(got))
		}
		ndAssert(member, "odd-is-an-input-value")
		ndAssert(ndAnd(less <= n/2, lessEq >= n/2+1), "odd-is-the-middle-value")
		ndReach("odd")
		return
	}
	found := false
	allOK := true
	for i := 0; i < n; i++ {
		for j := 0; j < n; j++ {
			if i == j {
				continue
			}
			a, b := wide[i], wide[j]
			ra, rb := 0, 0
			for k := 0; k < n; k++ {
				ra += ndB2I(ndOr(wide[k].LT(a), ndAnd(wide[k].Equal(a), k < i)))
				rb += ndB2I(ndOr(wide[k].LT(b), ndAnd(wide[k].Equal(b), k < j)))
			}
			isMid := ndAnd(ra == n/2-1, rb == n/2)
			found = ndOr(found, isMid)
			// mean of a and b rounded away from zero, in unbounded integers: 2*got - (a+b) is 0, or +1 for
			// a positive odd sum, or -1 for a negative odd sum
			s := a.Add(b)
			d := got.MulRaw(2).Sub(s)
			ok := ndOr(d.IsZero(), ndOr(ndAnd(s.IsPositive(), d.Equal(math.OneInt())), ndAnd(s.IsNegative(), d.Equal(math.NewInt(-1)))))
			allOK = ndAnd(allOK, ndImplies(isMid, ok))
		}
	}
	ndAssert(allOK, "even-mean-rounded-away-from-zero-no-overflow")
	ndAssert(found, "even-found-middle-pair")
	ndReach("even")
}

func c20Bound() int {
	if ndTier() > 0 {
		return 5
	}
	return 4
}

func VerifC20_median_u64() {
	n := ndLen("n", c20Bound())
	if n == 0 {
		_, err := Median([]uint64{})
		ndAssert(err != nil, "empty-is-error")
		ndReach("empty")
		return
	}
	in := make([]uint64, n)
	wide := make([]math.Int, n)
	for i := 0; i < n; i++ {
		in[i] = ndUint64(nm("x", i))
		wide[i] = c20WideU(in[i])
	}
	got, err := Median(in)
	ndAssert(err == nil, "no-error")
	for i := 0; i < n; i++ {
		ndAssert(in[i] == ndUint64(nm("x", i)), "input-not-modified")
	}
	c20Check(n, wide, c20WideU(got))
}

func VerifC20_median_i64() {
	n := ndLen("n", c20Bound())
	if n == 0 {
		_, err := Median([]int64{})
		ndAssert(err != nil, "empty-is-error")
		ndReach("empty")
		return
	}
	in := make([]int64, n)
	wide := make([]math.Int, n)
	for i := 0; i < n; i++ {
		in[i] = ndInt64(nm("x", i))
		wide[i] = c20WideI(in[i])
	}
	got, err := Median(in)
	ndAssert(err == nil, "no-error")
	c20Check(n, wide, c20WideI(got))
}

func VerifC20_median_u32() {
	n := 1 + ndLen("n", 3)
	in := make([]uint32, n)
	wide := make([]math.Int, n)
	for i := 0; i < n; i++ {
		in[i] = ndUint32(nm("x", i))
		wide[i] = c20WideU(uint64(in[i]))
	}
	got, err := Median(in)
	ndAssert(err == nil, "no-error")
	c20Check(n, wide, c20WideU(uint64(got)))
}

func VerifC20_median_i32() {
	n := 1 + ndLen("n", 3)
	in := make([]int32, n)
	wide := make([]math.Int, n)
	for i := 0; i < n; i++ {
		in[i] = ndInt32(nm("x", i))
		wide[i] = c20WideI(int64(in[i]))
	}
	got, err := Median(in)
	ndAssert(err == nil, "no-error")
	c20Check(n, wide, c20WideI(int64(got)))
}
