package types

import (
	"math/big"
	"time"

	"github.com/tellor-io/layer/daemons/pricefeed/client/types"
	servertypes "github.com/tellor-io/layer/daemons/server/types"
)

var c20Exchanges = []string{"exchangeA", "exchangeB", "exchangeC"}

// VerifC20_price_cache: a sequence of price updates (any exchanges, prices over the full 64-bit range, any order of
// update times) followed by one read, executed sequentially:
//   - an exchange's stored price only moves forward in update time (an update is taken iff strictly newer)
//   - the served price for the market is the median of exactly the latest prices whose update time is within the
//     maximum age of the read time (mean of two rounded up, in unbounded integers), and nothing is served when fewer
//     than the market's minimum number of exchanges are fresh (or none is)
func VerifC20_price_cache() {
	maxAge := ndInt64("maxAgeNs")
	ndAssume(maxAge >= 0)
	ndAssume(maxAge < 1<<50)
	mte := NewMarketToExchangePrices(time.Duration(maxAge))
	nEx := 2 + ndTier()
	k := 1 + ndLen("updates", 2+ndTier())
	has := make([]bool, nEx)
	refT := make([]time.Time, nEx)
	refP := make([]uint64, nEx)
	const market = uint32(7)
	for i := 0; i < k; i++ {
		ex := ndPick(nm("exchange", i), nEx)
		price := ndUint64(nm("price", i))
		t := ndTime(nm("updateTime", i))
		ndAssume(t.After(time.Time{}))
		mte.UpdatePrices([]*servertypes.MarketPriceUpdate{{MarketId: market, ExchangePrices: []*servertypes.ExchangePrice{{ExchangeId: c20Exchanges[ex], Price: price, LastUpdateTime: &t}}}})
		if !has[ex] || t.After(refT[ex]) {
			has[ex], refT[ex], refP[ex] = true, t, price
		}
		stored := mte.marketToExchangePrices[market].exchangeToPriceTimestamp[c20Exchanges[ex]]
		ndAssert(stored != nil && stored.LastUpdateTime.Equal(refT[ex]) && stored.Price == refP[ex], "stored-price-is-the-latest-by-update-time")
		// a read may happen between two updates (at any read time): it must not change what is stored
		if i == 0 && k > 1 && ndBool("readInBetween") {
			mte.GetValidMedianPrices([]types.MarketParam{{Id: market, MinExchanges: 0}}, ndTime("earlyReadTime"))
		}
	}
	readTime := ndTime("readTime")
	ndAssume(readTime.After(time.Unix(0, 1<<51)))
	minEx := uint32(ndLen("minExchanges", nEx))
	res := mte.GetValidMedianPrices([]types.MarketParam{{Id: market, MinExchanges: minEx}}, readTime)
	cutoff := readTime.Add(-time.Duration(maxAge))
	// the fresh prices, in unbounded integers
	var fresh []*big.Int
	for e := 0; e < nEx; e++ {
		if has[e] && !refT[e].Before(cutoff) {
			fresh = append(fresh, new(big.Int).SetUint64(refP[e]))
		}
	}
	got, served := res[market]
	if len(fresh) == 0 || len(fresh) < int(minEx) {
		ndReach("nothing-served")
		ndAssert(!served, "no-price-when-too-few-exchanges-are-fresh")
		return
	}
	ndReach("served")
	ndAssert(served, "a-price-is-served-when-enough-exchanges-are-fresh")
	// rank-defined median over the fresh prices (n <= 3)
	want := new(big.Int)
	switch len(fresh) {
	case 1:
		want = fresh[0]
	case 2:
		want.Add(fresh[0], fresh[1])
		want.Add(want, big.NewInt(1))
		want.Rsh(want, 1)
	default:
		a, b, c := fresh[0], fresh[1], fresh[2]
		// middle of three
		if (a.Cmp(b) <= 0 && b.Cmp(c) <= 0) || (c.Cmp(b) <= 0 && b.Cmp(a) <= 0) {
			want = b
		} else if (b.Cmp(a) <= 0 && a.Cmp(c) <= 0) || (c.Cmp(a) <= 0 && a.Cmp(b) <= 0) {
			want = a
		} else {
			want = c
		}
	}
	ndAssert(new(big.Int).SetUint64(got).Cmp(want) == 0, "served-price-is-the-median-of-exactly-the-fresh-prices")
}
