package types

import (
	"time"

	"github.com/tellor-io/layer/daemons/pricefeed/client/types"
	servertypes "github.com/tellor-io/layer/daemons/server/types"
)

// VerifC20_lock_discipline: the sequential proof obligation behind "goroutine safe". The cache (its market map and,
// through it, every exchange map) is declared guarded by the cache's mutex; an update and a read that may run
// concurrently are executed (one after the other, in either order) on a populated cache. On every path every access to
// a guarded map happens with the mutex held, the mutex is never taken twice, and it is free again when both calls have
// returned. With all accesses of each call inside one critical section of the one mutex, concurrent calls are atomic
// with respect to each other (each read reflects a point between completed updates) and race free.
func VerifC20_lock_discipline() {
	maxAge := ndInt64("maxAgeNs")
	ndAssume(maxAge >= 0 && maxAge < 1<<50)
	mte := NewMarketToExchangePrices(time.Duration(maxAge))
	ndGuardedBy(mte, &mte.Mutex)
	upd := func(tag string, market uint32) []*servertypes.MarketPriceUpdate {
		t := ndTime(tag + "Time")
		ndAssume(t.After(time.Time{}))
		return []*servertypes.MarketPriceUpdate{{MarketId: market, ExchangePrices: []*servertypes.ExchangePrice{
			{ExchangeId: c20Exchanges[ndPick(tag+"Exchange", 2)], Price: ndUint64(tag + "Price"), LastUpdateTime: &t}}}}
	}
	// populated or empty cache
	if ndBool("populated") {
		mte.UpdatePrices(upd("first", 7))
	}
	ndAssert(ndLockFree(&mte.Mutex), "lock-free-between-calls")
	second := upd("second", []uint32{7, 8}[ndPick("secondMarket", 2)])
	readTime := ndTime("readTime")
	ndAssume(readTime.After(time.Unix(0, 1<<51)))
	params := []types.MarketParam{{Id: 7, MinExchanges: uint32(ndLen("minExchanges", 2))}, {Id: 8, MinExchanges: 1}}
	ndConcurrently(
		func() { mte.UpdatePrices(second) },
		func() { mte.GetValidMedianPrices(params, readTime) },
	)
	ndAssert(ndLockFree(&mte.Mutex), "lock-free-after-both-calls")
	ndReach("ran")
}
