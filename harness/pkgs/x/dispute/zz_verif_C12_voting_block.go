package dispute

import (
	"context"
	"time"

	"github.com/tellor-io/layer/x/dispute/keeper"
	"github.com/tellor-io/layer/x/dispute/types"
	oracletypes "github.com/tellor-io/layer/x/oracle/types"

	"cosmossdk.io/collections"
	"cosmossdk.io/math"
)

// c12Rep: the reporter keeper during execution: records stake returned to the reporter's backers.
type c12Rep struct {
	types.ReporterKeeper
	nReturned *int
}

func (r c12Rep) ReturnSlashedTokens(ctx context.Context, amt math.Int, hashId []byte) error {
	*r.nReturned++
	return nil
}

// VerifC12_voting_block: the dispute BeginBlocker on a dispute in voting (team voted support; reporters and possibly
// users voted support with their whole group power), at any block time relative to the end of voting and the
// dispute's deadline:
//   - while voting is open nothing changes
//   - after the voting period the vote is tallied exactly once: with quorum the dispute is resolved and closed, without
//     quorum it is unresolved and stays open for a new round until its deadline, after which it is resolved and closed
//   - a resolved dispute is executed in the same block, exactly once; an unresolved one is not executed before its deadline
//   - the next block changes nothing more (never twice through the same transition, never backwards)
func VerifC12_voting_block() {
	bank := newVBank(false)
	nRet := 0
	ctx, ss, cdc := ndEnv("dispute")
	k := keeper.NewKeeper(cdc, ss, vAcc{}, bank, vNoOracle{}, c12Rep{nReturned: &nRet})
	id := uint64(4)
	z := math.ZeroInt()
	hash := ndHash("hash")
	end := ndTime("disputeDeadline")
	voteEnd := ndTime("voteEnd")
	team := ndAddr("team")
	if err := k.Params.Set(ctx, types.Params{TeamAddress: team}); err != nil {
		panic(err)
	}
	S, B := math.NewInt(1000000), math.NewInt(50000)
	d := types.Dispute{HashId: hash, DisputeId: id, DisputeStatus: types.Voting, Open: true, DisputeFee: S.Sub(B), SlashAmount: S, BurnAmount: B, FeeTotal: S, VoterReward: z,
		PrevDisputeIds: []uint64{id}, DisputeStartTime: time.Unix(1, 0).UTC(), DisputeEndTime: end, DisputeRound: 1, InitialEvidence: oracletypes.MicroReport{}}
	must := func(err error) {
		if err != nil {
			panic(err)
		}
	}
	must(k.Disputes.Set(ctx, id, d))
	must(k.Votes.Set(ctx, id, types.Vote{Id: id, VoteStart: time.Unix(2, 0).UTC(), VoteEnd: voteEnd, VoteResult: types.VoteResult_NO_TALLY}))
	must(k.Voter.Set(ctx, collections.Join(id, team), types.Voter{Vote: types.VoteEnum_VOTE_SUPPORT, VoterPower: math.NewInt(25000000), ReporterPower: z, TokenholderPower: z}))
	must(k.BlockInfo.Set(ctx, hash, types.BlockInfo{TotalReporterPower: math.NewInt(1000), TotalUserTips: math.NewInt(1000)}))
	quorum := ndBool("usersVotedToo")
	counts := types.StakeholderVoteCounts{Reporters: types.VoteCounts{Support: 1000}, Team: types.VoteCounts{Support: 1}}
	if quorum {
		counts.Users = types.VoteCounts{Support: 1000}
	}
	must(k.VoteCountsByGroup.Set(ctx, id, counts))
	bank.set("supply:", math.NewIntWithDecimal(1, 30))
	bank.set(vbMod("dispute"), S.MulRaw(2))
	now := ndTime("now")
	bctx := ctx.WithBlockTime(now)

	err := BeginBlocker(bctx, k)
	ndAssert(err == nil, "begin-blocker-returns-nil")
	got, gerr := k.Disputes.Get(ctx, id)
	v, verr := k.Votes.Get(ctx, id)
	if gerr != nil || verr != nil {
		ndAssert(false, "dispute-and-vote-still-stored")
		return
	}
	votingOver := now.After(voteEnd)
	pastDeadline := now.After(end)
	switch {
	case !votingOver:
		ndReach("voting-open")
		ndAssert(got.DisputeStatus == types.Voting && got.Open && !got.PendingExecution && v.VoteResult == types.VoteResult_NO_TALLY && !v.Executed, "nothing-changes-while-voting-is-open")
		ndAssert(bank.nCalls == 0, "no-coins-move-while-voting-is-open")
	case quorum:
		ndReach("quorum")
		ndAssert(v.VoteResult == types.VoteResult_SUPPORT, "tallied-with-quorum")
		ndAssert(got.DisputeStatus == types.Resolved && !got.Open, "quorum-resolves-and-closes")
		ndAssert(v.Executed && !got.PendingExecution, "a-resolved-dispute-is-executed-in-the-same-block")
	default:
		ndReach("no-quorum")
		ndAssert(v.VoteResult == types.VoteResult_NO_QUORUM_MAJORITY_SUPPORT, "tallied-without-quorum-by-majority")
		if pastDeadline {
			ndAssert(got.DisputeStatus == types.Resolved && !got.Open && v.Executed, "after-its-deadline-an-unresolved-dispute-is-resolved-closed-and-executed")
		} else {
			ndAssert(got.DisputeStatus == types.Unresolved && got.Open && got.PendingExecution && !v.Executed, "before-its-deadline-it-stays-open-for-a-new-round-and-is-not-executed")
		}
	}
	if v.Executed {
		ndAssert(bank.burned.Equal(B.QuoRaw(2)) && got.VoterReward.Equal(B.QuoRaw(2)), "execution-burns-half-the-burn-amount-once")
	} else {
		ndAssert(bank.burned.IsZero(), "nothing-burned-without-execution")
	}
	// the next block at the same time: no second tally, no second execution, no step backwards
	burned1, calls1 := bank.burned, bank.nCalls
	err2 := BeginBlocker(bctx, k)
	got2, _ := k.Disputes.Get(ctx, id)
	v2, _ := k.Votes.Get(ctx, id)
	ndAssert(err2 == nil, "next-block-returns-nil")
	ndAssert(got2.DisputeStatus == got.DisputeStatus && got2.Open == got.Open && v2.VoteResult == v.VoteResult && v2.Executed == v.Executed, "no-transition-twice-and-none-backwards")
	ndAssert(bank.burned.Equal(burned1) && bank.nCalls == calls1, "no-second-execution")
}
