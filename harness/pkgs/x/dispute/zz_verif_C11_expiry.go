package dispute

import (
	"context"
	"time"

	"github.com/tellor-io/layer/x/dispute/keeper"
	"github.com/tellor-io/layer/x/dispute/types"
	oracletypes "github.com/tellor-io/layer/x/oracle/types"

	"cosmossdk.io/math"

	sdk "github.com/cosmos/cosmos-sdk/types"
	authtypes "github.com/cosmos/cosmos-sdk/x/auth/types"
)

type vAcc struct{ types.AccountKeeper }

func (vAcc) GetModuleAddress(name string) sdk.AccAddress { return authtypes.NewModuleAddress(name) }

// vNoCalls: any call into the reporter or oracle keeper is a nil-interface panic (= an unexpected side effect)
type vNoReporter struct{ types.ReporterKeeper }
type vNoOracle struct{ types.OracleKeeper }

var _ = context.Background

// VerifC11_prevote_expiry: the dispute BeginBlocker on a dispute still in prevote: after its one-day deadline it
// becomes Failed and closed, without slashing, jailing, flagging or moving coins; before the deadline it is untouched.
func VerifC11_prevote_expiry() {
	bank := newVBank(false)
	ctx, ss, cdc := ndEnv("dispute")
	k := keeper.NewKeeper(cdc, ss, vAcc{}, bank, vNoOracle{}, vNoReporter{})
	id := uint64(4)
	z := math.ZeroInt()
	end := ndTime("fundingDeadline")
	fee := ndBigInt("feeTotal")
	ndAssume(fee.IsPositive() && fee.LT(math.NewInt(1000000)))
	d := types.Dispute{HashId: ndHash("hash"), DisputeId: id, DisputeStatus: types.Prevote, Open: true, DisputeFee: z, SlashAmount: math.NewInt(1000000), BurnAmount: math.NewInt(50000), FeeTotal: fee, VoterReward: z,
		PrevDisputeIds: []uint64{id}, DisputeStartTime: time.Unix(1, 0).UTC(), DisputeEndTime: end, InitialEvidence: oracletypes.MicroReport{}}
	if err := k.Disputes.Set(ctx, id, d); err != nil {
		panic(err)
	}
	bank.set(vbMod("dispute"), fee)
	now := ndTime("now")
	err := BeginBlocker(ctx.WithBlockTime(now), k)
	ndAssert(err == nil, "begin-blocker-returns-nil")
	got, gerr := k.Disputes.Get(ctx, id)
	ndAssert(gerr == nil, "dispute-still-stored")
	ndAssert(bank.nCalls == 0 && bank.modBal("dispute").Equal(fee), "expiry-moves-no-coins")
	if now.After(end) {
		ndReach("expired")
		ndAssert(got.DisputeStatus == types.Failed && !got.Open && !got.PendingExecution, "expired-prevote-dispute-fails-and-closes")
	} else {
		ndReach("still-open")
		ndAssert(got.DisputeStatus == types.Prevote && got.Open, "prevote-dispute-untouched-before-its-deadline")
	}
	ndAssert(got.FeeTotal.Equal(fee) && got.SlashAmount.Equal(d.SlashAmount), "amounts-untouched")
	// a second block changes nothing more (never twice through the same transition)
	err2 := BeginBlocker(ctx.WithBlockTime(now), k)
	got2, _ := k.Disputes.Get(ctx, id)
	ndAssert(err2 == nil && got2.DisputeStatus == got.DisputeStatus && got2.Open == got.Open, "idempotent-on-the-next-block")
}
