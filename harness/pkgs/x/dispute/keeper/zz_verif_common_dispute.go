package keeper

import (
	"time"

	"github.com/tellor-io/layer/x/dispute/types"
	oracletypes "github.com/tellor-io/layer/x/oracle/types"

	"cosmossdk.io/math"

	sdk "github.com/cosmos/cosmos-sdk/types"
	authtypes "github.com/cosmos/cosmos-sdk/x/auth/types"
)

type vDispAcc struct{ types.AccountKeeper }

func (vDispAcc) GetModuleAddress(name string) sdk.AccAddress { return authtypes.NewModuleAddress(name) }

func vDisputeKeeper(bank types.BankKeeper, ok types.OracleKeeper, rk types.ReporterKeeper) (sdk.Context, Keeper) {
	ctx, ss, cdc := ndEnv("dispute")
	k := NewKeeper(cdc, ss, vDispAcc{}, bank, ok, rk)
	return ctx, k
}

// vDispute: a dispute record with every math.Int field set (proto marshalling needs non-nil values).
func vDispute(id uint64, hash []byte) types.Dispute {
	z := math.ZeroInt()
	return types.Dispute{
		HashId: hash, DisputeId: id, DisputeFee: z, SlashAmount: z, BurnAmount: z, FeeTotal: z, VoterReward: z,
		PrevDisputeIds: []uint64{id}, Open: true, DisputeStartTime: time.Unix(1, 0).UTC(), DisputeEndTime: time.Unix(1, 0).UTC(),
		InitialEvidence: oracletypes.MicroReport{},
	}
}

func must(err error) {
	if err != nil {
		panic(err)
	}
}
