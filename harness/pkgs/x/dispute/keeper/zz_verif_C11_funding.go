package keeper

import (
	"context"
	"time"

	"github.com/tellor-io/layer/x/dispute/types"
	oracletypes "github.com/tellor-io/layer/x/oracle/types"

	"cosmossdk.io/collections"
	"cosmossdk.io/math"

	sdk "github.com/cosmos/cosmos-sdk/types"
)

// c11Reporter / c11Oracle: record slashing, jailing, fee-from-stake and flagging.
type c11Reporter struct {
	types.ReporterKeeper
	nEscrow    int
	escrowAmt  math.Int
	escrowPow  uint64
	escrowH    uint64
	escrowWho  string
	nJail      int
	jailDur    uint64
	jailWho    string
	feeFromStk math.Int
	nFeeStake  int
}

func (r *c11Reporter) EscrowReporterStake(ctx context.Context, reporterAddr sdk.AccAddress, power, height uint64, amt math.Int, queryId, hashId []byte) error {
	r.nEscrow++
	r.escrowAmt, r.escrowPow, r.escrowH, r.escrowWho = amt, power, height, string(reporterAddr)
	return nil
}

func (r *c11Reporter) JailReporter(ctx context.Context, reporterAddr sdk.AccAddress, jailDuration uint64) error {
	r.nJail++
	r.jailDur, r.jailWho = jailDuration, string(reporterAddr)
	return nil
}

func (r *c11Reporter) FeefromReporterStake(ctx context.Context, reporterAddr sdk.AccAddress, amt math.Int, hashId []byte) error {
	r.nFeeStake++
	r.feeFromStk = r.feeFromStk.Add(amt)
	return nil
}

type c11Oracle struct {
	types.OracleKeeper
	nFlag int
}

func (o *c11Oracle) FlagAggregateReport(ctx context.Context, report oracletypes.MicroReport) error {
	o.nFlag++
	return nil
}

// VerifC11_add_fee: one AddFeeToDispute step on a dispute in prevote.
//   - the payer's record accumulates (sum of payer records = FeeTotal is preserved)        [C13]
//   - escrow receives exactly what was added; never more than the missing part            [C13]
//   - slashing, jailing and flagging happen iff this payment completes the fee, exactly once, with the category's
//     share of the reported power and the category's jail time                              [C11]
func VerifC11_add_fee() {
	bank := newVBank(false)
	rk := &c11Reporter{escrowAmt: math.ZeroInt(), feeFromStk: math.ZeroInt()}
	ok := &c11Oracle{}
	ctx, k := vDisputeKeeper(bank, ok, rk)
	id := uint64(9)
	hash := ndHash("hash")
	cat := []types.DisputeCategory{types.Warning, types.Minor, types.Major}[ndPick("category", 3)]
	power := ndUint64("power")
	ndAssume(power >= 1 && power <= 1000000000)
	reporter := ndByteSlice("reporter", 20)
	report := oracletypes.MicroReport{Reporter: sdk.AccAddress(reporter).String(), Power: power, QueryId: ndHash("qid"), BlockNumber: ndUint64("reportBlock"), Value: "aa"}
	// slash amount = the category's percentage of power * 10^6 (what SetNewDispute stored)
	pct := []int64{1, 5, 100}[ndPick("category", 3)]
	S := math.NewIntFromUint64(power).MulRaw(1000000).MulRaw(pct).QuoRaw(100)
	F := ndBigInt("feeTotalBefore")
	ndAssume(F.IsPositive() && F.LT(S))
	d := vDispute(id, hash)
	d.DisputeStatus = types.Prevote
	d.DisputeCategory = cat
	d.SlashAmount, d.BurnAmount, d.FeeTotal, d.DisputeFee = S, S.QuoRaw(20), F, S.Sub(S.QuoRaw(20))
	d.InitialEvidence = report
	d.DisputeEndTime = ndTime("disputeEnd")
	must(k.Disputes.Set(ctx, id, d))
	sender := ndByteSlice("sender", 20)
	// D5: the payer records of the dispute sum to FeeTotal. Either the sender paid all of it before, or somebody else did
	senderPaidBefore := ndBool("senderPaidBefore")
	other := ndByteSlice("otherPayer", 20)
	ndAssume(!vBytesEq20(other, sender))
	if senderPaidBefore {
		must(k.DisputeFeePayer.Set(ctx, collections.Join(id, sender), types.PayerInfo{Amount: F}))
	} else {
		must(k.DisputeFeePayer.Set(ctx, collections.Join(id, other), types.PayerInfo{Amount: F}))
	}
	amount := ndBigInt("amount")
	ndAssume(amount.LT(math.NewIntWithDecimal(1, 30)))
	fromBond := ndBool("fromBond")
	bal := ndBigInt("senderBalance")
	ndAssume(!bal.IsNegative())
	bank.set(vbAcc(sender), bal)
	bank.set(vbMod("dispute"), F)
	now := ndTime("now")
	bctx := ctx.WithBlockTime(now).WithBlockHeight(77)
	_, err := NewMsgServerImpl(k).AddFeeToDispute(bctx, &types.MsgAddFeeToDispute{Creator: sdk.AccAddress(sender).String(), DisputeId: id, Amount: sdk.Coin{Denom: "loya", Amount: amount}, PayFromBond: fromBond})
	dd, _ := k.Disputes.Get(ctx, id)
	if err != nil {
		ndReach("rejected")
		ndAssert(dd.FeeTotal.Equal(F) && dd.DisputeStatus == types.Prevote, "rejected-payment-leaves-the-dispute")
		ndAssert(rk.nEscrow == 0 && rk.nJail == 0 && ok.nFlag == 0, "rejected-payment-slashes-nobody")
		ndAssert(bank.modBal("dispute").Equal(F), "rejected-payment-moves-nothing-into-escrow")
		return
	}
	ndReach("accepted")
	ndAssert(amount.IsPositive(), "only-positive-payments")
	ndAssert(!now.After(d.DisputeEndTime), "only-before-the-funding-deadline")
	missing := S.Sub(F)
	added := ndIteBig(amount.GT(missing), missing, amount)
	ndAssert(dd.FeeTotal.Equal(F.Add(added)), "fee-total-grows-by-the-payment-capped-at-the-missing-part")
	if !fromBond {
		ndAssert(bank.modBal("dispute").Equal(F.Add(added)) && bank.get(vbAcc(sender)).Equal(bal.Sub(added)), "escrow-receives-exactly-what-the-payer-loses")
	} else {
		ndAssert(rk.nFeeStake == 1 && rk.feeFromStk.Equal(added), "fee-from-stake-requested-for-exactly-the-added-amount")
	}
	rec, rerr := k.DisputeFeePayer.Get(ctx, collections.Join(id, sender))
	wantRec := added
	if senderPaidBefore {
		wantRec = F.Add(added)
	}
	ndAssert(rerr == nil && rec.Amount.Equal(wantRec), "payer-record-accumulates-sum-of-records-stays-fee-total")
	completes := dd.FeeTotal.Equal(S)
	if completes {
		ndReach("fully-funded")
		ndAssert(dd.DisputeStatus == types.Voting, "fully-funded-dispute-starts-voting")
		ndAssert(rk.nEscrow == 1 && ok.nFlag == 1, "slashed-and-flagged-exactly-once")
		ndAssert(rk.escrowAmt.Equal(S) && rk.escrowPow == power && rk.escrowH == report.BlockNumber && rk.escrowWho == string(reporter), "slash-is-the-category-share-of-the-reported-stake")
		switch cat {
		case types.Warning:
			ndAssert(rk.nJail == 1 && rk.jailDur == 0 && rk.jailWho == string(reporter), "warning-jails-with-immediate-release")
		case types.Minor:
			ndAssert(rk.nJail == 1 && rk.jailDur == 600 && rk.jailWho == string(reporter), "minor-jails-for-ten-minutes")
		default:
			ndAssert(rk.nJail == 0, "major-does-not-use-timed-jail")
		}
		v, verr := k.Votes.Get(ctx, id)
		ndAssert(verr == nil && v.VoteStart.Equal(now) && v.VoteEnd.Equal(now.Add(48*time.Hour)), "two-day-voting-period-starts-now")
		ndAssert(dd.DisputeEndTime.Equal(now.Add(72*time.Hour)), "three-day-dispute-deadline")
	} else {
		ndReach("still-underfunded")
		ndAssert(dd.DisputeStatus == types.Prevote && rk.nEscrow == 0 && rk.nJail == 0 && ok.nFlag == 0, "no-slashing-before-the-fee-is-complete")
	}
}
