package keeper

import (
	"github.com/tellor-io/layer/x/dispute/types"

	sdk "github.com/cosmos/cosmos-sdk/types"
)

// VerifC19_update_team: the team address can be changed only by the current team address.
func VerifC19_update_team() {
	ctx, k := vDisputeKeeper(newVBank(false), nil, nil)
	team := ndAddr("team")
	must(k.Params.Set(ctx, types.Params{TeamAddress: team}))
	claimed := ndAddr("claimedCurrent")
	newTeam := ndAddr("newTeam")
	_, err := NewMsgServerImpl(k).UpdateTeam(ctx, &types.MsgUpdateTeam{CurrentTeamAddress: sdk.AccAddress(claimed).String(), NewTeamAddress: sdk.AccAddress(newTeam).String()})
	p, _ := k.Params.Get(ctx)
	if err == nil {
		ndReach("accepted")
		ndAssert(string(claimed) == string(team), "only-the-current-team-address-changes-the-team")
		ndAssert(string(p.TeamAddress) == string(newTeam), "team-address-updated")
	} else {
		ndReach("rejected")
		ndAssert(string(p.TeamAddress) == string(team), "rejected-request-changes-nothing")
	}
}
