package keeper

import (
	"github.com/tellor-io/layer/x/dispute/types"

	sdk "github.com/cosmos/cosmos-sdk/types"
)

// VerifC19_update_team: the team address can be changed only by the current team address.
func VerifC19_update_team() {
	ctx, k := vDisputeKeeper(newVBank(false), nil, nil)
	team := ndByteSlice("team", 20)
	must(k.Params.Set(ctx, types.Params{TeamAddress: team}))
	claimed := ndByteSlice("claimedCurrent", 20)
	newTeam := ndByteSlice("newTeam", 20)
	_, err := NewMsgServerImpl(k).UpdateTeam(ctx, &types.MsgUpdateTeam{CurrentTeamAddress: sdk.AccAddress(claimed).String(), NewTeamAddress: sdk.AccAddress(newTeam).String()})
	p, _ := k.Params.Get(ctx)
	if err == nil {
		ndReach("accepted")
		ndAssert(vBytesEq20(claimed, team), "only-the-current-team-address-changes-the-team")
		ndAssert(vBytesEq(p.TeamAddress, newTeam), "team-address-updated")
	} else {
		ndReach("rejected")
		ndAssert(vBytesEq(p.TeamAddress, team), "rejected-request-changes-nothing")
	}
}

// vBytesEq: equality of two byte slices (branch-free over the contents)
func vBytesEq(a, b []byte) bool {
	if len(a) != len(b) {
		return false
	}
	eq := true
	for i := range a {
		eq = ndAnd(eq, a[i] == b[i])
	}
	return eq
}
