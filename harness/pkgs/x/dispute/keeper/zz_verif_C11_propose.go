package keeper

import (
	"context"
	"time"

	"github.com/tellor-io/layer/x/dispute/types"
	oracletypes "github.com/tellor-io/layer/x/oracle/types"

	"cosmossdk.io/math"

	sdk "github.com/cosmos/cosmos-sdk/types"
)

type c11Oracle2 struct {
	c11Oracle
}

func (o *c11Oracle2) GetTotalTips(ctx context.Context) (math.Int, error) { return math.NewInt(1000), nil }

type c11Reporter2 struct {
	c11Reporter
}

func (r *c11Reporter2) TotalReporterPower(ctx context.Context) (math.Int, error) {
	return math.NewInt(5000), nil
}

// VerifC11_propose_new: ProposeDispute opening a new dispute (no earlier dispute on this report).
//   - the stored dispute has slash amount = the category's share (1%/5%/100%) of power * 10^6, burn amount 5% of it
//   - the fee taken is min(offered, required); slashing/jailing/flagging happen iff the fee is complete, once
//   - an under-funded dispute stays in prevote with a one-day funding deadline and slashes nobody
//   - (known finding C11-F1) the report in the message is not compared with what the reporter really submitted
func VerifC11_propose_new() {
	bank := newVBank(false)
	rk := &c11Reporter2{c11Reporter{escrowAmt: math.ZeroInt(), feeFromStk: math.ZeroInt()}}
	ok := &c11Oracle2{}
	ctx, k := vDisputeKeeper(bank, ok, rk)
	catIdx := ndPick("category", 3)
	cat := []types.DisputeCategory{types.Warning, types.Minor, types.Major}[catIdx]
	pct := []int64{1, 5, 100}[catIdx]
	// what the reporter really submitted
	realPower := ndUint64("realPower")
	ndAssume(realPower >= 1 && realPower <= 1000000000)
	reporter := ndByteSlice("reporter", 20)
	// the message's report: the real one, or one with an altered power
	altered := ndBool("alteredPower")
	power := realPower
	if altered {
		power = ndUint64("claimedPower")
		ndAssume(power >= 1 && power <= 1000000000 && power != realPower)
	}
	report := oracletypes.MicroReport{Reporter: sdk.AccAddress(reporter).String(), Power: power, QueryId: ndHash("qid"), BlockNumber: 40, Value: "aa", Timestamp: time.Unix(7, 0).UTC()}
	sender := ndByteSlice("sender", 20)
	offered := ndBigInt("offered")
	ndAssume(offered.LT(math.NewIntWithDecimal(1, 30)))
	bal := ndBigInt("senderBalance")
	ndAssume(!bal.IsNegative() && bal.LT(math.NewIntWithDecimal(1, 30)))
	bank.set(vbAcc(sender), bal)
	now := ndTime("now")
	bctx := ctx.WithBlockTime(now).WithBlockHeight(90)
	_, err := NewMsgServerImpl(k).ProposeDispute(bctx, &types.MsgProposeDispute{Creator: sdk.AccAddress(sender).String(), Report: &report, DisputeCategory: cat, Fee: sdk.Coin{Denom: "loya", Amount: offered}, PayFromBond: false})
	if err != nil {
		ndReach("rejected")
		ndAssert(rk.nEscrow == 0 && rk.nJail == 0 && ok.nFlag == 0, "rejected-proposal-slashes-nobody")
		ndAssert(bank.modBal("dispute").IsZero(), "rejected-proposal-takes-no-fee")
		return
	}
	ndReach("accepted")
	d, derr := k.Disputes.Get(ctx, 1)
	ndAssert(derr == nil, "first-dispute-gets-id-one")
	if derr != nil {
		return
	}
	S := math.NewIntFromUint64(power).MulRaw(1000000).MulRaw(pct).QuoRaw(100)
	ndAssert(d.SlashAmount.Equal(S), "slash-amount-is-the-category-share-of-the-claimed-stake")
	ndAssert(d.BurnAmount.Equal(S.QuoRaw(20)), "burn-amount-is-five-percent")
	taken := ndIteBig(offered.GT(S), S, offered)
	ndAssert(d.FeeTotal.Equal(taken) && bank.modBal("dispute").Equal(taken) && bank.get(vbAcc(sender)).Equal(bal.Sub(taken)), "fee-taken-is-the-offer-capped-at-the-required-fee")
	ndAssert(offered.GTE(math.NewInt(10000)), "minimum-offer-respected")
	funded := taken.Equal(S)
	if funded {
		ndReach("fully-funded")
		ndAssert(d.DisputeStatus == types.Voting && rk.nEscrow == 1 && ok.nFlag == 1, "funded-dispute-slashes-once-and-starts-voting")
		ndAssert(rk.escrowAmt.Equal(S) && rk.escrowWho == string(reporter), "slash-taken-from-the-disputed-reporter")
		ndAssert(d.DisputeEndTime.Equal(now.Add(72*time.Hour)), "three-day-deadline")
		// only for a report the reporter really submitted with the stated power (known finding: never checked)
		ndAssertK(!altered, "slashed-report-is-the-one-really-submitted", "C11-F1", altered)
	} else {
		ndReach("under-funded")
		ndAssert(d.DisputeStatus == types.Prevote && rk.nEscrow == 0 && rk.nJail == 0 && ok.nFlag == 0, "under-funded-dispute-slashes-nobody")
		ndAssert(d.DisputeEndTime.Equal(now.Add(24*time.Hour)) && d.Open, "one-day-funding-deadline")
	}
}
