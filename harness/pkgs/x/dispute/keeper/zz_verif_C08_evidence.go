package keeper

import (
	"context"

	"github.com/tellor-io/layer/x/dispute/types"
	oracletypes "github.com/tellor-io/layer/x/oracle/types"

	"cosmossdk.io/collections"

	sdk "github.com/cosmos/cosmos-sdk/types"
)

// c08Flagger: the oracle keeper as AddEvidence sees it: records which reports it is asked to flag; reports that
// determine no aggregate answer ErrNotFound (as the real FlagAggregateReport does, checked by C08.c).
type c08Flagger struct {
	types.OracleKeeper
	asked    []oracletypes.MicroReport
	notFound []bool
}

func (o *c08Flagger) FlagAggregateReport(ctx context.Context, r oracletypes.MicroReport) error {
	i := len(o.asked)
	o.asked = append(o.asked, r)
	if i < len(o.notFound) && o.notFound[i] {
		return collections.ErrNotFound
	}
	return nil
}

// VerifC08_add_evidence: MsgAddEvidence on a dispute in any state: accepted only for an OPEN dispute; then exactly
// the submitted reports are appended to the dispute's evidence and exactly those are handed to the oracle for
// flagging (a report that determined no aggregate is not an error); a closed dispute refuses and nothing is flagged
// or recorded. No coins move either way.
func VerifC08_add_evidence() {
	bank := newVBank(false)
	or := &c08Flagger{notFound: []bool{ndBool("firstDeterminedNothing"), ndBool("secondDeterminedNothing")}}
	ctx, k := vDisputeKeeper(bank, or, nil)
	id := uint64(6)
	d := vDispute(id, ndHash("hash"))
	d.Open = ndBool("open")
	d.DisputeStatus = c12Statuses[ndPick("status", len(c12Statuses))]
	hadEvidence := ndBool("hadEvidence")
	if hadEvidence {
		d.AdditionalEvidence = []*oracletypes.MicroReport{{Reporter: ndBech32("oldReporter"), QueryId: ndHash("oldQid"), BlockNumber: 3, Value: "aa"}}
	}
	must(k.Disputes.Set(ctx, id, d))
	n := 1 + ndLen("extraReports", 1)
	reports := make([]*oracletypes.MicroReport, n)
	for i := range reports {
		reports[i] = &oracletypes.MicroReport{Reporter: ndBech32(nm("reporter", i)), QueryId: ndHash(nm("qid", i)), BlockNumber: ndUint64(nm("height", i)), Value: "bb", Power: ndUint64(nm("power", i))}
	}
	caller := ndByteSlice("caller", 20)
	_, err := NewMsgServerImpl(k).AddEvidence(ctx, &types.MsgAddEvidence{CallerAddress: sdk.AccAddress(caller).String(), DisputeId: id, Reports: reports})
	got, gerr := k.Disputes.Get(ctx, id)
	must(gerr)
	base := 0
	if hadEvidence {
		base = 1
	}
	ndAssert(bank.nCalls == 0, "evidence-moves-no-coins")
	ndAssert(got.Open == d.Open && got.DisputeStatus == d.DisputeStatus && got.FeeTotal.Equal(d.FeeTotal), "evidence-does-not-change-the-dispute's-state")
	if err != nil {
		ndReach("refused")
		ndAssert(!d.Open, "only-a-closed-dispute-refuses-evidence")
		ndAssert(len(or.asked) == 0 && len(got.AdditionalEvidence) == base, "refused-evidence-flags-and-records-nothing")
		return
	}
	ndReach("accepted")
	ndAssert(d.Open, "evidence-only-on-an-open-dispute")
	ndAssert(len(got.AdditionalEvidence) == base+n, "the-submitted-reports-are-appended")
	ndAssert(len(or.asked) == n, "exactly-the-submitted-reports-are-handed-to-the-oracle")
	if len(or.asked) == n && len(got.AdditionalEvidence) == base+n {
		same := true
		for i := 0; i < n; i++ {
			same = ndAnd(same, ndAnd(or.asked[i].Reporter == reports[i].Reporter, ndAnd(string(or.asked[i].QueryId) == string(reports[i].QueryId), or.asked[i].BlockNumber == reports[i].BlockNumber)))
			e := got.AdditionalEvidence[base+i]
			same = ndAnd(same, ndAnd(e.Reporter == reports[i].Reporter, e.BlockNumber == reports[i].BlockNumber))
		}
		ndAssert(same, "flagged-and-recorded-reports-are-the-submitted-ones-in-order")
	}
}
