package keeper

import (
	"context"
	"time"

	"github.com/tellor-io/layer/x/dispute/types"

	"cosmossdk.io/collections"
	"cosmossdk.io/math"

	sdk "github.com/cosmos/cosmos-sdk/types"
)

// c13Tips: the oracle keeper as ClaimReward sees it: every tipper's total tips are a step function of the block
// number: `early` before the dispute's block, `at` from the dispute's block on (totals never decrease).
type c13Tips struct {
	types.OracleKeeper
	block uint64
	who   [][]byte
	early []math.Int
	at    []math.Int
}

func (o c13Tips) GetTipsAtBlockForTipper(ctx context.Context, blockNumber uint64, tipper sdk.AccAddress) (math.Int, error) {
	for i, w := range o.who {
		if string(w) == string(tipper) {
			return ndIteBig(blockNumber < o.block, o.early[i], o.at[i]), nil
		}
	}
	return math.ZeroInt(), nil
}

// voter-reward pots: a round figure, one that no share divides, and the smallest
var c13Pots = []int64{1000000, 999999999989, 1}

// VerifC13_claim_reward: a resolved and executed dispute of one or two rounds with voters' pot R; two voters A and B
// whose recorded powers are part of the per-group tallies of the rounds they voted in. Claims: A, A again, B, B again.
//   - a voter's claim pays their pro-rata part of the pot (mean over the groups that voted of power/group total,
//     over all rounds), to within one unit
//   - the second claim of the same voter is rejected and pays nothing (also when they voted only in an earlier round)
//   - the claims together never exceed the pot and never fail for lack of funds (escrow holds exactly the pot)
func VerifC13_claim_reward_1round()  { c13ClaimReward(1) }
func VerifC13_claim_reward_2rounds() { c13ClaimReward(2) }

func c13ClaimReward(rounds int) {
	bank := newVBank(false)
	A, B := ndAddr("A"), ndAddr("B")
	ndAssume(string(A) != string(B))
	block := ndUint64("disputeBlock")
	ndAssume(block >= 1)
	ndAssume(block < 1000000000)
	tips := c13Tips{block: block, who: [][]byte{A, B}, early: make([]math.Int, 2), at: make([]math.Int, 2)}
	ids := []uint64{3, 8}[:rounds]
	// group totals per round (constants: they are the divisors): round 1 from a grid, round 2 fixed
	grid := []uint64{0, 6}
	tot := make([][3]uint64, rounds) // reporters, users, tokenholders
	if rounds == 1 || ndTier() >= 1 {
		tot[0] = [3]uint64{grid[ndPick("r1reporters", 2)], grid[ndPick("r1users", 2)], grid[ndPick("r1holders", 2)]}
	} else {
		tot[0] = [3]uint64{6, grid[ndPick("r1users", 2)], grid[ndPick("r1holders", 2)]}
	}
	if rounds == 2 {
		tot[1] = [3]uint64{4, 4, 4}
	}
	// who voted where: A in the first round only / the last round only / every round; B in the last round
	patternA := 2
	if rounds == 2 {
		patternA = ndPick("A-voted-in", 3)
	}
	votedA := func(r int) bool {
		switch patternA {
		case 0:
			return r == 0
		case 1:
			return r == rounds-1
		}
		return true
	}
	// user power is the tipper's total at the dispute's block, the same in every round they voted in
	for i := 0; i < 2; i++ {
		tips.at[i] = ndBigInt(nm("tipsAtDisputeBlock", i))
		tips.early[i] = ndBigInt(nm("tipsEarlier", i))
		ndAssume(!tips.early[i].IsNegative())
		ndAssume(tips.early[i].LTE(tips.at[i]))
	}
	ctx, k := vDisputeKeeper(bank, tips, nil)
	// per-voter sums over rounds of the power they voted with, per group
	sumA, sumB := [3]math.Int{math.ZeroInt(), math.ZeroInt(), math.ZeroInt()}, [3]math.Int{math.ZeroInt(), math.ZeroInt(), math.ZeroInt()}
	for r := 0; r < rounds; r++ {
		rest := [3]math.Int{math.NewIntFromUint64(tot[r][0]), math.NewIntFromUint64(tot[r][1]), math.NewIntFromUint64(tot[r][2])}
		for vi, who := range [][]byte{A, B} {
			if (vi == 0 && !votedA(r)) || (vi == 1 && r != rounds-1) {
				continue
			}
			rp, tp := ndBigInt(nm(nm("reporterPower", vi), r)), ndBigInt(nm(nm("holderPower", vi), r))
			ndAssume(!rp.IsNegative())
			ndAssume(!tp.IsNegative())
			up := tips.at[vi]
			ndAssume(rp.LTE(rest[0]))
			ndAssume(up.LTE(rest[1]))
			ndAssume(tp.LTE(rest[2]))
			rest[0], rest[1], rest[2] = rest[0].Sub(rp), rest[1].Sub(up), rest[2].Sub(tp)
			must(k.Voter.Set(ctx, collections.Join(ids[r], who), types.Voter{Vote: types.VoteEnum_VOTE_SUPPORT, VoterPower: rp.Add(tp), ReporterPower: rp, TokenholderPower: tp}))
			if vi == 0 {
				sumA[0], sumA[1], sumA[2] = sumA[0].Add(rp), sumA[1].Add(up), sumA[2].Add(tp)
			} else {
				sumB[0], sumB[1], sumB[2] = sumB[0].Add(rp), sumB[1].Add(up), sumB[2].Add(tp)
			}
		}
		must(k.VoteCountsByGroup.Set(ctx, ids[r], types.StakeholderVoteCounts{
			Reporters: types.VoteCounts{Support: tot[r][0]}, Users: types.VoteCounts{Support: tot[r][1]}, Tokenholders: types.VoteCounts{Support: tot[r][2]},
		}))
	}
	// a voter that did not vote at all tipped nothing that counts
	last := ids[rounds-1]
	R := math.NewInt(c13Pots[1])
	if ndTier() >= 1 {
		R = math.NewInt(c13Pots[ndPick("pot", 3)])
	}
	d := vDispute(last, ndHash("hash"))
	d.DisputeStatus = types.Resolved
	d.Open = false
	d.BlockNumber = block
	d.VoterReward = R
	d.PrevDisputeIds = ids
	d.DisputeRound = uint64(rounds)
	must(k.Disputes.Set(ctx, last, d))
	if rounds == 2 {
		d0 := vDispute(ids[0], d.HashId)
		d0.DisputeStatus = types.Unresolved
		d0.Open = false
		d0.BlockNumber = block
		must(k.Disputes.Set(ctx, ids[0], d0))
	}
	must(k.Votes.Set(ctx, last, types.Vote{Id: last, VoteStart: time.Unix(1, 0).UTC(), VoteEnd: time.Unix(2, 0).UTC(), VoteResult: types.VoteResult_SUPPORT, Executed: true}))
	bank.set(vbMod("dispute"), R)

	// global totals and the number of groups that voted
	G := [3]int64{0, 0, 0}
	for r := 0; r < rounds; r++ {
		for g := 0; g < 3; g++ {
			G[g] += int64(tot[r][g])
		}
	}
	groups, prod := int64(0), int64(1)
	for g := 0; g < 3; g++ {
		if G[g] != 0 {
			groups++
			prod *= G[g]
		}
	}
	if groups == 0 {
		err := k.ClaimReward(ctx, A, last)
		ndReach("no-votes")
		ndAssert(err != nil && bank.nCalls == 0, "nothing-to-claim-without-votes")
		return
	}
	// reference: paid * D ~ N with N = R * sum_g a_g * prod/G_g, D = groups * prod
	ref := func(a [3]math.Int) math.Int {
		n := math.ZeroInt()
		for g := 0; g < 3; g++ {
			if G[g] != 0 {
				n = n.Add(a[g].MulRaw(prod / G[g]))
			}
		}
		return n.Mul(R)
	}
	D := math.NewInt(groups * prod)
	slack := D.QuoRaw(1000).AddRaw(1)
	paid := [2]math.Int{math.ZeroInt(), math.ZeroInt()}
	for step := 0; step < 4; step++ {
		vi := step / 2
		who := [][]byte{A, B}[vi]
		before := bank.get(vbAcc(who))
		err := k.ClaimReward(ctx, who, last)
		got := bank.get(vbAcc(who)).Sub(before)
		if step%2 == 1 {
			ndReach("second-claim")
			ndAssert(err != nil, "second-claim-by-the-same-voter-is-rejected")
			ndAssert(got.IsZero(), "second-claim-pays-nothing")
			continue
		}
		N := ref([3]math.Int{sumA[0], sumA[1], sumA[2]})
		if vi == 1 {
			N = ref([3]math.Int{sumB[0], sumB[1], sumB[2]})
		}
		if err != nil {
			ndReach("first-claim-rejected")
			// only a zero reward is turned down
			ndAssert(N.LT(D.Add(slack)), "a-claim-worth-at-least-one-unit-is-paid")
			ndAssert(got.IsZero(), "rejected-claim-pays-nothing")
			continue
		}
		ndReach("first-claim-paid")
		paid[vi] = got
		ndAssert(got.Mul(D).LTE(N.Add(slack)), "claim-is-at-most-the-pro-rata-part")
		ndAssert(got.AddRaw(1).Mul(D).GTE(N.Sub(slack)), "claim-is-at-least-the-pro-rata-part-less-one-unit")
	}
	ndAssert(paid[0].Add(paid[1]).LTE(R), "claims-never-exceed-the-pot")
	ndAssert(bank.modBal("dispute").Equal(R.Sub(paid[0]).Sub(paid[1])), "escrow-decreases-by-the-claims")
}
