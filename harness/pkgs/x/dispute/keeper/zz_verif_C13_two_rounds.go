package keeper

import (
	"time"

	"github.com/tellor-io/layer/x/dispute/types"

	"cosmossdk.io/collections"
	"cosmossdk.io/math"

	sdk "github.com/cosmos/cosmos-sdk/types"
)

// VerifC13_two_rounds: settlement of a dispute that went through two rounds: the first round's fee S paid by P
// (payer record under the first round's id), the second round's fee (10% of S) paid by Q (later rounds write no
// payer record), stake S escrowed; the final round is resolved and executed, then P tries to withdraw under either
// round id.
//
// Known finding C13-F4: the fee payer of the first round can never withdraw (the record is under the first round's
// id, whose vote is never executed; under the final id there is no record), and the later rounds' fees are counted
// into the burn amount that is subtracted from what is returned, so that they stay in escrow: after everything that
// can be claimed has been claimed, more than the voters' pot and dust remains. The run pins what happens today.
func VerifC13_two_rounds() {
	bank := newVBank(false)
	rk := &c13Reporter{returned: math.ZeroInt(), refunded: math.ZeroInt(), rewarded: math.ZeroInt()}
	ctx, k := vDisputeKeeper(bank, nil, rk)
	const id1, id2 = uint64(3), uint64(8)
	hash := ndHash("hash")
	S := math.NewInt(1000000)
	B1 := S.QuoRaw(20)            // burn amount of the first round: 5%
	rf := B1.MulRaw(2)            // fee of round two: 5% * 2^1
	burn := B1.Add(rf)            // what AddDisputeRound accumulates
	feeTotal := S.Add(rf)
	results := []types.VoteResult{types.VoteResult_INVALID, types.VoteResult_SUPPORT, types.VoteResult_AGAINST}
	res := results[ndPick("result", 3)]
	P := ndByteSlice("payer", 20)
	d1 := vDispute(id1, hash)
	d1.DisputeStatus, d1.Open, d1.SlashAmount, d1.BurnAmount, d1.FeeTotal, d1.DisputeFee = types.Unresolved, false, S, B1, S, S.Sub(B1)
	must(k.Disputes.Set(ctx, id1, d1))
	must(k.Votes.Set(ctx, id1, types.Vote{Id: id1, VoteStart: time.Unix(1, 0).UTC(), VoteEnd: time.Unix(2, 0).UTC(), VoteResult: types.VoteResult_NO_QUORUM_MAJORITY_INVALID}))
	d2 := vDispute(id2, hash)
	d2.DisputeStatus, d2.Open, d2.PendingExecution, d2.DisputeRound = types.Resolved, false, true, 2
	d2.SlashAmount, d2.BurnAmount, d2.FeeTotal, d2.DisputeFee = S, burn, feeTotal, S.Sub(B1)
	d2.PrevDisputeIds = []uint64{id1, id2}
	must(k.Disputes.Set(ctx, id2, d2))
	must(k.Votes.Set(ctx, id2, types.Vote{Id: id2, VoteStart: time.Unix(3, 0).UTC(), VoteEnd: time.Unix(4, 0).UTC(), VoteResult: res}))
	must(k.VoteCountsByGroup.Set(ctx, id1, types.StakeholderVoteCounts{Users: types.VoteCounts{Support: 7}}))
	must(k.VoteCountsByGroup.Set(ctx, id2, types.StakeholderVoteCounts{Users: types.VoteCounts{Support: 7}}))
	must(k.BlockInfo.Set(ctx, hash, types.BlockInfo{TotalReporterPower: math.OneInt(), TotalUserTips: math.OneInt()}))
	must(k.DisputeFeePayer.Set(ctx, collections.Join(id1, P), types.PayerInfo{Amount: S, FromBond: false}))
	must(k.Dust.Set(ctx, math.ZeroInt()))
	E0 := S.Add(feeTotal) // escrow: the stake and every fee paid
	bank.set(vbMod("dispute"), E0)
	bctx := ctx.WithBlockTime(time.Unix(100, 0).UTC())

	err := k.ExecuteVote(bctx, id2)
	ndAssert(err == nil, "the-final-round-executes")
	if err != nil {
		return
	}
	ndReach("executed")
	err2 := k.ExecuteVote(bctx, id2)
	ndAssert(err2 != nil, "execution-happens-once")
	dd, _ := k.Disputes.Get(ctx, id2)
	// pinned behaviour: half of the accumulated burn amount is burned, the other half is the voters' pot
	ndAssert(bank.burned.Equal(burn.QuoRaw(2)) && dd.VoterReward.Equal(burn.QuoRaw(2)), "half-the-accumulated-burn-amount-burned-half-to-voters")
	ms := NewMsgServerImpl(k)
	_, w1 := ms.WithdrawFeeRefund(bctx, &types.MsgWithdrawFeeRefund{CallerAddress: sdk.AccAddress(P).String(), PayerAddress: sdk.AccAddress(P).String(), Id: id1})
	_, w2 := ms.WithdrawFeeRefund(bctx, &types.MsgWithdrawFeeRefund{CallerAddress: sdk.AccAddress(P).String(), PayerAddress: sdk.AccAddress(P).String(), Id: id2})
	entitled := res != types.VoteResult_AGAINST
	if entitled {
		ndReach("payer-entitled")
		ndAssertK(w1 == nil || w2 == nil, "the-first-round-payer-can-withdraw-the-refund", "C13-F4", true)
	}
	// after everything that can be claimed has been claimed, escrow holds the voters' pot and at most dust
	left := bank.modBal("dispute")
	ndAssertK(left.Sub(dd.VoterReward).LT(math.NewInt(2)), "at-most-the-voters-pot-and-dust-remain-in-escrow", "C13-F4", true)
	// pinned: what stays behind today
	switch res {
	case types.VoteResult_AGAINST:
		// reporter receives the stake and the first fee minus the ACCUMULATED burn amount: the later round's fee stays
		ndAssert(rk.returned.Equal(S.Add(S.Sub(burn))) && left.Equal(dd.VoterReward.Add(rf)), "against:the-later-round-fee-stays-in-escrow")
	case types.VoteResult_INVALID:
		ndAssert(rk.returned.Equal(S) && left.Equal(E0.Sub(bank.burned).Sub(S)), "invalid:nothing-is-refunded-to-the-payer")
	default:
		ndAssert(rk.returned.IsZero() && left.Equal(E0.Sub(bank.burned)), "support:neither-refund-nor-bond-reaches-the-payer")
	}
	ndAssert(bank.minted.IsZero(), "nothing-minted")
}
