package keeper

import (
	"context"
	"time"

	"github.com/tellor-io/layer/x/dispute/types"
	reportertypes "github.com/tellor-io/layer/x/reporter/types"

	"cosmossdk.io/collections"
	"cosmossdk.io/math"

	sdk "github.com/cosmos/cosmos-sdk/types"
)

// c12Snapshot: the reporter keeper as the vote handler sees it: one reporter R with two selectors A and B, their
// stake as recorded at the dispute's block.
type c12Snapshot struct {
	types.ReporterKeeper
	who    [][]byte // R, A, B
	tokens []math.Int
}

func (s c12Snapshot) idx(a []byte) int {
	for i, w := range s.who {
		if string(w) == string(a) {
			return i
		}
	}
	return -1
}

func (s c12Snapshot) Delegation(ctx context.Context, delegator sdk.AccAddress) (reportertypes.Selection, error) {
	if s.idx(delegator) < 0 {
		return reportertypes.Selection{}, collections.ErrNotFound
	}
	return reportertypes.Selection{Reporter: s.who[0]}, nil
}

func (s c12Snapshot) GetReporterTokensAtBlock(ctx context.Context, reporter []byte, blockNumber uint64) (math.Int, error) {
	return s.tokens[0].Add(s.tokens[1]).Add(s.tokens[2]), nil
}

func (s c12Snapshot) GetDelegatorTokensAtBlock(ctx context.Context, delegator []byte, blockNumber uint64) (math.Int, error) {
	i := s.idx(delegator)
	if i < 0 {
		return math.ZeroInt(), nil
	}
	return s.tokens[i], nil
}

type c12NoTips struct{ types.OracleKeeper }

func (c12NoTips) GetTipsAtBlockForTipper(ctx context.Context, blockNumber uint64, tipper sdk.AccAddress) (math.Int, error) {
	return math.ZeroInt(), nil
}

// VerifC12_votes: up to three votes by a reporter and its two selectors, in any order and with any choices:
// each address votes at most once; the reporter-group tally counts every unit of the reporter's stake exactly once
// (a selector's own vote is removed from its reporter's weight), no counter wraps, and the reporter's recorded
// power shrinks by exactly what its selectors voted themselves.
func VerifC12_votes() { c12Votes(false) }

// VerifC12_votes3: exactly three votes by three distinct participants in every order (two choices each).
func VerifC12_votes3() { c12Votes(true) }

func c12Votes(three bool) {
	bank := newVBank(false)
	snap := c12Snapshot{who: [][]byte{ndAddr("R"), ndAddr("A"), ndAddr("B")}, tokens: make([]math.Int, 3)}
	ndAssume(string(snap.who[0]) != string(snap.who[1]) && string(snap.who[0]) != string(snap.who[2]) && string(snap.who[1]) != string(snap.who[2]))
	for i := 0; i < 3; i++ {
		snap.tokens[i] = ndBigInt(nm("tokens", i))
		ndAssume(snap.tokens[i].IsPositive() && snap.tokens[i].LT(math.NewInt(1000000000)))
	}
	ctx, k := vDisputeKeeper(bank, c12NoTips{}, snap)
	team := ndAddr("team")
	for _, w := range snap.who {
		ndAssume(string(team) != string(w))
	}
	must(k.Params.Set(ctx, types.Params{TeamAddress: team}))
	id := uint64(3)
	hash := ndHash("hash")
	d := vDispute(id, hash)
	d.DisputeStatus = types.Voting
	d.BlockNumber = 50
	d.DisputeEndTime = time.Unix(1000000, 0).UTC()
	must(k.Disputes.Set(ctx, id, d))
	must(k.Votes.Set(ctx, id, types.Vote{Id: id, VoteStart: time.Unix(100, 0).UTC(), VoteEnd: time.Unix(2000, 0).UTC()}))
	huge := math.NewIntWithDecimal(1, 30)
	must(k.BlockInfo.Set(ctx, hash, types.BlockInfo{TotalReporterPower: huge, TotalUserTips: huge}))
	bank.set("supply:", huge)
	ms := NewMsgServerImpl(k)
	bctx := ctx.WithBlockTime(time.Unix(500, 0).UTC())
	n := 3
	if !three {
		n = 1 + ndLen("nvotes", 1+ndTier())
	}
	voted := []bool{false, false, false}
	choice := []types.VoteEnum{0, 0, 0}
	choices := []types.VoteEnum{types.VoteEnum_VOTE_SUPPORT, types.VoteEnum_VOTE_AGAINST, types.VoteEnum_VOTE_INVALID}
	order := []int{-1, -1, -1} // position at which each participant voted
	for i := 0; i < n; i++ {
		w := ndPick(nm("voter", i), 3)
		var c types.VoteEnum
		if three {
			if voted[w] {
				ndAssume(false) // distinct voters only in this harness
			}
			c = choices[w%2] // fixed choices here (reporter support, A against, B support); all choices in VerifC12_votes
		} else {
			c = choices[ndPick(nm("choice", i), 3)]
		}
		_, err := ms.Vote(bctx, &types.MsgVote{Voter: sdk.AccAddress(snap.who[w]).String(), Id: id, Vote: c})
		if voted[w] {
			ndAssert(err != nil, "second-vote-by-the-same-address-is-rejected")
			continue
		}
		ndAssert(err == nil, "first-vote-in-an-open-round-is-accepted")
		if err != nil {
			return
		}
		voted[w], choice[w], order[w] = true, c, i
		dd, _ := k.Disputes.Get(ctx, id)
		// with totals of 10^30 the quorum cannot be reached by stakes below 10^9: an "early quorum" path exists
		// only through the abstracted quotients and is discarded
		ndAssume(dd.DisputeStatus == types.Voting)
	}
	ndReach("votes-cast")
	T := snap.tokens[0].Add(snap.tokens[1]).Add(snap.tokens[2])
	vc, verr := k.VoteCountsByGroup.Get(ctx, id)
	ndAssert(verr == nil, "vote-counts-recorded")
	want := func(c types.VoteEnum) math.Int {
		s := math.ZeroInt()
		selVoted := math.ZeroInt()
		for i := 1; i < 3; i++ {
			if voted[i] {
				selVoted = selVoted.Add(snap.tokens[i])
				if choice[i] == c {
					s = s.Add(snap.tokens[i])
				}
			}
		}
		if voted[0] && choice[0] == c {
			s = s.Add(T.Sub(selVoted))
		}
		return s
	}
	ndAssert(math.NewIntFromUint64(vc.Reporters.Support).Equal(want(types.VoteEnum_VOTE_SUPPORT)), "reporter-group-support-counts-each-stake-once")
	ndAssert(math.NewIntFromUint64(vc.Reporters.Against).Equal(want(types.VoteEnum_VOTE_AGAINST)), "reporter-group-against-counts-each-stake-once")
	ndAssert(math.NewIntFromUint64(vc.Reporters.Invalid).Equal(want(types.VoteEnum_VOTE_INVALID)), "reporter-group-invalid-counts-each-stake-once")
	if voted[0] {
		rv, rerr := k.Voter.Get(ctx, collections.Join(id, snap.who[0]))
		selVoted := math.ZeroInt()
		for i := 1; i < 3; i++ {
			if voted[i] {
				selVoted = selVoted.Add(snap.tokens[i])
			}
		}
		ndAssert(rerr == nil && rv.ReporterPower.Equal(T.Sub(selVoted)), "reporters-recorded-power-excludes-selectors-who-voted-themselves")
	}
	for i := 1; i < 3; i++ {
		if voted[i] {
			sv, serr := k.Voter.Get(ctx, collections.Join(id, snap.who[i]))
			ndAssert(serr == nil && sv.ReporterPower.Equal(snap.tokens[i]) && sv.Vote == choice[i], "selector-recorded-with-its-own-stake-and-choice")
		}
	}
}

// VerifC12_vote_guards: a vote is accepted only while the dispute is in Voting state and the voting period is open.
func VerifC12_vote_guards() {
	bank := newVBank(false)
	snap := c12Snapshot{who: [][]byte{ndAddr("R"), ndAddr("A"), ndAddr("B")}, tokens: []math.Int{math.NewInt(5), math.NewInt(3), math.NewInt(2)}}
	ndAssume(string(snap.who[0]) != string(snap.who[1]) && string(snap.who[0]) != string(snap.who[2]) && string(snap.who[1]) != string(snap.who[2]))
	ctx, k := vDisputeKeeper(bank, c12NoTips{}, snap)
	must(k.Params.Set(ctx, types.Params{TeamAddress: ndAddr("team")}))
	id := uint64(3)
	hash := ndHash("hash")
	d := vDispute(id, hash)
	statuses := []types.DisputeStatus{types.Prevote, types.Voting, types.Resolved, types.Unresolved, types.Failed}
	st := statuses[ndPick("status", len(statuses))]
	d.DisputeStatus = st
	d.BlockNumber = 50
	must(k.Disputes.Set(ctx, id, d))
	hasVote := ndBool("hasVoteRecord")
	end := ndTime("voteEnd")
	if hasVote {
		must(k.Votes.Set(ctx, id, types.Vote{Id: id, VoteStart: time.Unix(1, 0).UTC(), VoteEnd: end}))
	}
	huge := math.NewIntWithDecimal(1, 30)
	must(k.BlockInfo.Set(ctx, hash, types.BlockInfo{TotalReporterPower: huge, TotalUserTips: huge}))
	bank.set("supply:", huge)
	now := ndTime("now")
	_, err := NewMsgServerImpl(k).Vote(ctx.WithBlockTime(now), &types.MsgVote{Voter: sdk.AccAddress(snap.who[1]).String(), Id: id, Vote: types.VoteEnum_VOTE_SUPPORT})
	if err == nil {
		ndReach("accepted")
		ndAssert(st == types.Voting, "accepted-only-in-voting-state")
		ndAssert(hasVote && !end.Before(now), "accepted-only-while-the-voting-period-is-open")
	} else {
		ndReach("rejected")
		_, gerr := k.Voter.Get(ctx, collections.Join(id, snap.who[1]))
		ndAssert(gerr != nil, "rejected-vote-leaves-no-voter-record")
	}
}
