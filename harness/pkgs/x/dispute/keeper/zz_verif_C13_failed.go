package keeper

import (
	"time"

	"github.com/tellor-io/layer/x/dispute/types"

	"cosmossdk.io/collections"
	"cosmossdk.io/math"

	sdk "github.com/cosmos/cosmos-sdk/types"
)

// VerifC13_failed_refund: a dispute that failed in prevote (fee never completed, nobody slashed): what each payer can
// withdraw. Nothing was burned and nobody voted, so conservation demands that the payers get their fees back and at
// most dust stays in escrow. Known finding C13-F2: only 5% is refunded (feeMinusBurn = FeeTotal/20).
func VerifC13_failed_refund() {
	bank := newVBank(false)
	rk := &c13Reporter{returned: math.ZeroInt(), refunded: math.ZeroInt(), rewarded: math.ZeroInt()}
	ctx, k := vDisputeKeeper(bank, nil, rk)
	id := uint64(6)
	F := math.NewInt(c13Slash[ndPick("feeTotal", 1+ndTier())]).QuoRaw(2) // half-funded
	payer := ndByteSlice("payer", 20)
	d := vDispute(id, ndHash("hash"))
	d.DisputeStatus = types.Failed
	d.Open = false
	d.SlashAmount, d.BurnAmount, d.FeeTotal = F.MulRaw(2), F.MulRaw(2).QuoRaw(20), F
	must(k.Disputes.Set(ctx, id, d))
	must(k.DisputeFeePayer.Set(ctx, collections.Join(id, payer), types.PayerInfo{Amount: F}))
	must(k.Dust.Set(ctx, math.ZeroInt()))
	bank.set(vbMod("dispute"), F)
	_, err := NewMsgServerImpl(k).WithdrawFeeRefund(ctx.WithBlockTime(time.Unix(50, 0).UTC()), &types.MsgWithdrawFeeRefund{CallerAddress: sdk.AccAddress(payer).String(), PayerAddress: sdk.AccAddress(payer).String(), Id: id})
	ndAssert(err == nil, "payer-of-a-failed-dispute-can-withdraw")
	if err != nil {
		return
	}
	ndReach("withdrawn")
	got := bank.get(vbAcc(payer))
	left := bank.modBal("dispute")
	ndAssertK(left.LT(math.NewInt(2)), "at-most-dust-remains-in-escrow-after-all-claims", "C13-F2", true)
	// characterisation of the known behaviour: exactly floor(paid * floor(FeeTotal/20) / FeeTotal) is refunded
	ndAssert(got.Equal(F.Mul(F.QuoRaw(20)).Quo(F)) && got.Add(left).Add(bank.burned).Equal(F), "refund-is-the-recorded-five-percent-and-nothing-is-lost")
	_, gerr := k.DisputeFeePayer.Get(ctx, collections.Join(id, payer))
	ndAssert(gerr != nil, "payer-record-removed")
}
