package keeper

import (
	"time"

	"github.com/tellor-io/layer/x/dispute/types"

	"cosmossdk.io/collections"
	"cosmossdk.io/math"
)

// c12Group: one voting group's (support, against, invalid) counts with their SUM drawn from a small grid (so that every
// division in the tally is by a solver-established constant) and the group's TOTAL = sum * k.
type c12Group struct {
	s, a, i uint64
	sum     uint64
	total   uint64
}

// quick: sums 0 and 4 (all quotients exact); thorough adds 3 and 10^6 (roundings at 10^-18 and 10^-6)
var c12Sums = []uint64{0, 4, 3, 1000000}

func c12MakeGroup(prefix string, silent bool) c12Group {
	g := c12Group{}
	if silent {
		g.total = 5
		return g
	}
	nSums := 2 + 2*ndTier()
	g.sum = c12Sums[ndPick(prefix+"sum", nSums)]
	g.s, g.a = ndUint64(prefix+"S"), ndUint64(prefix+"A")
	ndAssume(g.s <= g.sum && g.a <= g.sum-g.s)
	g.i = g.sum - g.s - g.a
	if g.sum == 0 {
		g.total = 5 // nobody of this group voted
		return g
	}
	// participation 100%, 25% or 4% of the group (4%: team 25 + one full group 25 + 1 = exactly 51%)
	k := []uint64{1, 4, 25}[ndPick(prefix+"k", 3)]
	g.total = g.sum * k
	return g
}

// VerifC12_tally: TallyVote + Ratio + UpdateDispute with exact arithmetic.
//   - totality (C02.b): after the voting period every vote distribution is decided (TallyVote returns nil)
//   - the recorded result is a quorum result iff 25% * sum of participation >= 51% (band of 4*10^-6 %)
//   - the winner's exact score (sum over participating groups of its fraction) is not smaller than any other's
//   - unanimity: if every participating group puts all its weight on X the result is X
// quick tier: one group is silent per harness (mode 0: token holders, mode 1: users); thorough: all three vote
func VerifC12_tally_team_none()            { c12Tally(0, 0) }
func VerifC12_tally_team_support()         { c12Tally(1, 0) }
func VerifC12_tally_team_against()         { c12Tally(2, 0) }
func VerifC12_tally_team_invalid()         { c12Tally(3, 0) }
func VerifC12_tally_holders_team_none()    { c12Tally(0, 1) }
func VerifC12_tally_holders_team_against() { c12Tally(2, 1) }

func c12Tally(teamVote, mode int) {
	bank := newVBank(false)
	ctx, k := vDisputeKeeper(bank, nil, nil)
	id := uint64(7)
	hash := ndHash("hash")
	team := ndAddr("team")
	must(k.Params.Set(ctx, types.Params{TeamAddress: team}))
	full := true // all three groups may vote in both tiers
	users, reps, holders := c12MakeGroup("u", !full && mode == 1), c12MakeGroup("r", false), c12MakeGroup("h", !full && mode == 0)
	// teamVote: 0 none, 1 support, 2 against, 3 invalid (one harness per choice so that they run in parallel)
	voteEnd := ndTime("voteEnd")
	now := ndTime("now")
	ndAssume(voteEnd.Before(now)) // the situation in which BeginBlocker calls TallyVote
	disputeEnd := ndTime("disputeEnd")
	d := vDispute(id, hash)
	d.DisputeStatus = types.Voting
	d.DisputeEndTime = disputeEnd
	must(k.Disputes.Set(ctx, id, d))
	must(k.Votes.Set(ctx, id, types.Vote{Id: id, VoteStart: time.Unix(1, 0).UTC(), VoteEnd: voteEnd}))
	must(k.BlockInfo.Set(ctx, hash, types.BlockInfo{TotalReporterPower: math.NewIntFromUint64(reps.total), TotalUserTips: math.NewIntFromUint64(users.total)}))
	bank.set("supply:", math.NewIntFromUint64(holders.total))
	vc := types.StakeholderVoteCounts{
		Users:        types.VoteCounts{Support: users.s, Against: users.a, Invalid: users.i},
		Reporters:    types.VoteCounts{Support: reps.s, Against: reps.a, Invalid: reps.i},
		Tokenholders: types.VoteCounts{Support: holders.s, Against: holders.a, Invalid: holders.i},
	}
	nVoters := 0
	if teamVote > 0 {
		ve := []types.VoteEnum{types.VoteEnum_VOTE_SUPPORT, types.VoteEnum_VOTE_AGAINST, types.VoteEnum_VOTE_INVALID}[teamVote-1]
		must(k.Voter.Set(ctx, collections.Join(id, team), types.Voter{Vote: ve, VoterPower: math.NewInt(25000000), ReporterPower: math.ZeroInt(), TokenholderPower: math.ZeroInt()}))
		nVoters++
	}
	if users.sum+reps.sum+holders.sum > 0 {
		// some non-team voter record exists (GetVoters only counts them)
		other := ndAddr("someVoter")
		ndAssume(string(other) != string(team))
		must(k.Voter.Set(ctx, collections.Join(id, other), types.Voter{Vote: types.VoteEnum_VOTE_SUPPORT, VoterPower: math.OneInt(), ReporterPower: math.ZeroInt(), TokenholderPower: math.ZeroInt()}))
		nVoters++
	}
	must(k.VoteCountsByGroup.Set(ctx, id, vc))

	// exact scores, scaled by the common denominator D = product of the non-zero sums.
	// Two variants: over all participating groups (the statement's formula), and without the token holders (what
	// the code uses when team + users + reporters alone reach the quorum - known finding C12-F2).
	groups := []c12Group{users, reps, holders}
	D := math.OneInt()
	for _, g := range groups {
		if g.sum > 0 {
			D = D.MulRaw(int64(g.sum))
		}
	}
	score := func(pick func(g c12Group) uint64, teamIs int, withHolders bool) math.Int {
		sc := math.ZeroInt()
		for gi, g := range groups {
			if g.sum > 0 && (withHolders || gi != 2) {
				sc = sc.Add(D.QuoRaw(int64(g.sum)).Mul(math.NewIntFromUint64(pick(g))))
			}
		}
		if teamVote == teamIs {
			sc = sc.Add(D)
		}
		return sc
	}
	pS := func(g c12Group) uint64 { return g.s }
	pA := func(g c12Group) uint64 { return g.a }
	pI := func(g c12Group) uint64 { return g.i }
	sS, sA, sI := score(pS, 1, true), score(pA, 2, true), score(pI, 3, true)
	tS, tA, tI := score(pS, 1, false), score(pA, 2, false), score(pI, 3, false)
	// stage one: team + users + reporters alone reach 51% (exact: 25*(team + u/U + r/R) >= 51), with the tally's
	// fixed-point band of 4*10^-6 percent treated as "either"
	T1 := math.NewIntFromUint64(users.total).Mul(math.NewIntFromUint64(reps.total))
	p1 := math.NewIntFromUint64(users.sum).Mul(math.NewIntFromUint64(reps.total)).Add(math.NewIntFromUint64(reps.sum).Mul(math.NewIntFromUint64(users.total)))
	if teamVote > 0 {
		p1 = p1.Add(T1)
	}
	stage1 := p1.MulRaw(25).GTE(T1.MulRaw(51))
	stage1Clear := p1.MulRaw(25).MulRaw(1000000).GTE(T1.MulRaw(51).MulRaw(1000000).Add(T1.MulRaw(4)))
	holdersIgnored := ndAnd(stage1, holders.sum > 0)
	// a tie (or a difference below the tally's 10^-6 resolution) between the two leading choices
	top2Close := func(x, y, z math.Int) bool {
		lead := ndAnd(x.GTE(z), y.GTE(z))
		return ndAnd(lead, x.Sub(y).Abs().MulRaw(1000000).LT(D.MulRaw(4)))
	}
	tie3 := func(x, y, z math.Int) bool {
		return ndOr(top2Close(x, y, z), ndOr(top2Close(x, z, y), top2Close(y, z, x)))
	}
	nearTie := ndOr(tie3(sS, sA, sI), ndAnd(stage1, tie3(tS, tA, tI)))

	err := k.TallyVote(ctx.WithBlockTime(now), id)
	// known finding C12-F1 / C02-F2: equal (or 10^-6-close) leading scores are not decided: "no majority"
	ndAssertK(err == nil, "every-distribution-is-decided-after-the-voting-period", "C12-F1", ndAnd(nearTie, nVoters > 0))
	if err != nil {
		ndReach("tally-error")
		return
	}
	ndReach("tallied")
	v, verr := k.Votes.Get(ctx, id)
	ndAssert(verr == nil && v.VoteResult != types.VoteResult_NO_TALLY, "a-result-is-recorded")
	res := v.VoteResult
	isQuorum := res == types.VoteResult_SUPPORT || res == types.VoteResult_AGAINST || res == types.VoteResult_INVALID
	// participation in percent * 10^6, exact: 25 * (team + sum_g/total_g)
	// quorum <=> 25*10^6*(team + sum of sum_g/total_g) >= 51*10^6 ; cross-multiplied by T = product of totals
	T := math.OneInt()
	for _, g := range groups {
		T = T.MulRaw(int64(g.total))
	}
	part := math.ZeroInt()
	for _, g := range groups {
		part = part.Add(T.QuoRaw(int64(g.total)).MulRaw(int64(g.sum)))
	}
	if teamVote > 0 {
		part = part.Add(T)
	}
	// exact: 25*part/T >= 51  <=>  25*part >= 51*T
	exactQuorum := part.MulRaw(25).GTE(T.MulRaw(51))
	// every ratio of the grid (25/k percent, k in {1,4,25}) is exactly representable at the tally's 10^-6 resolution,
	// so no tolerance band is needed: quorum result <=> exact participation >= 51%
	ndAssert(isQuorum == exactQuorum, "quorum-result-iff-participation-at-least-51-percent")
	// winner has a maximal exact score
	isS := res == types.VoteResult_SUPPORT || res == types.VoteResult_NO_QUORUM_MAJORITY_SUPPORT
	isA := res == types.VoteResult_AGAINST || res == types.VoteResult_NO_QUORUM_MAJORITY_AGAINST
	isI := res == types.VoteResult_INVALID || res == types.VoteResult_NO_QUORUM_MAJORITY_INVALID
	if nVoters > 0 {
		// the statement's formula: maximal over ALL participating groups. Known finding C12-F2: when team + users +
		// reporters alone reach the quorum the token holders' votes are left out of the scores.
		ndAssertK(ndImplies(isS, ndAnd(sS.GTE(sA), sS.GTE(sI))), "support-wins-only-with-a-maximal-score", "C12-F2", holdersIgnored)
		ndAssertK(ndImplies(isA, ndAnd(sA.GTE(sS), sA.GTE(sI))), "against-wins-only-with-a-maximal-score", "C12-F2", holdersIgnored)
		ndAssertK(ndImplies(isI, ndAnd(sI.GTE(sS), sI.GTE(sA))), "invalid-wins-only-with-a-maximal-score", "C12-F2", holdersIgnored)
		// characterisation inside the region: then the winner is maximal over team + users + reporters
		if stage1Clear {
			okS := ndImplies(isS, ndAnd(tS.GTE(tA), tS.GTE(tI)))
			okA := ndImplies(isA, ndAnd(tA.GTE(tS), tA.GTE(tI)))
			okI := ndImplies(isI, ndAnd(tI.GTE(tS), tI.GTE(tA)))
			ndAssert(ndAnd(okS, ndAnd(okA, okI)), "stage-one-quorum-winner-is-maximal-over-team-users-reporters")
		}
	}
	dd, derr := k.Disputes.Get(ctx, id)
	ndAssert(derr == nil && (dd.DisputeStatus == types.Resolved || dd.DisputeStatus == types.Unresolved), "status-moves-forward-from-voting")
	ndAssert(ndImplies(isQuorum, dd.DisputeStatus == types.Resolved && !dd.Open && dd.PendingExecution), "quorum-result-resolves-the-dispute")
}
