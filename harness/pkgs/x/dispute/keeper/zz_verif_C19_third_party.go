package keeper

import (
	"time"

	"github.com/tellor-io/layer/x/dispute/types"

	"cosmossdk.io/collections"
	"cosmossdk.io/math"

	sdk "github.com/cosmos/cosmos-sdk/types"
)

// VerifC19_refund_by_third_party: WithdrawFeeRefund and ClaimReward name (or imply) the beneficiary; when somebody
// else signs, the money still goes to the entitled account and the signer gains nothing:
//   - MsgWithdrawFeeRefund{CallerAddress: T, PayerAddress: P}: P receives the refund, T's balance is unchanged
//   - MsgClaimReward{CallerAddress: T}: T is paid only T's own reward (nothing when T did not vote); the voter V's
//     record and entitlement are untouched
func VerifC19_refund_by_third_party() {
	bank := newVBank(false)
	rk := &c13Reporter{returned: math.ZeroInt(), refunded: math.ZeroInt(), rewarded: math.ZeroInt()}
	tips := c13Tips{block: 5}
	ctx, k := vDisputeKeeper(bank, tips, rk)
	const id = uint64(5)
	hash := ndHash("hash")
	S := math.NewInt(1000000)
	B := S.QuoRaw(20)
	P, T, V := ndByteSlice("payer", 20), ndByteSlice("thirdParty", 20), ndByteSlice("voter", 20)
	ndAssume(!vBytesEq20(P, T))
	ndAssume(!vBytesEq20(V, T))
	d := vDispute(id, hash)
	d.DisputeStatus, d.Open = types.Resolved, false
	d.SlashAmount, d.BurnAmount, d.FeeTotal, d.DisputeFee = S, B, S, S.Sub(B)
	d.VoterReward = B.QuoRaw(2)
	d.BlockNumber = 5
	must(k.Disputes.Set(ctx, id, d))
	must(k.Votes.Set(ctx, id, types.Vote{Id: id, VoteStart: time.Unix(1, 0).UTC(), VoteEnd: time.Unix(2, 0).UTC(), VoteResult: types.VoteResult_INVALID, Executed: true}))
	must(k.DisputeFeePayer.Set(ctx, collections.Join(id, P), types.PayerInfo{Amount: S, FromBond: false}))
	must(k.Dust.Set(ctx, math.ZeroInt()))
	must(k.Voter.Set(ctx, collections.Join(id, V), types.Voter{Vote: types.VoteEnum_VOTE_INVALID, VoterPower: math.NewInt(4), ReporterPower: math.NewInt(4), TokenholderPower: math.ZeroInt()}))
	must(k.VoteCountsByGroup.Set(ctx, id, types.StakeholderVoteCounts{Reporters: types.VoteCounts{Invalid: 4}}))
	bank.set(vbMod("dispute"), S.MulRaw(2))
	t0 := ndBigInt("thirdPartyBalance")
	ndAssume(!t0.IsNegative())
	ndAssume(t0.LT(math.NewIntWithDecimal(1, 18)))
	bank.set(vbAcc(T), t0)
	bctx := ctx.WithBlockTime(time.Unix(100, 0).UTC())
	ms := NewMsgServerImpl(k)
	switch ndPick("message", 3) {
	case 2:
		// the same for a dispute that failed in prevote (what is refunded there is known finding C13-F2; who gets it is
		// what matters here)
		d.DisputeStatus = types.Failed
		must(k.Disputes.Set(ctx, id, d))
		_, err := ms.WithdrawFeeRefund(bctx, &types.MsgWithdrawFeeRefund{CallerAddress: sdk.AccAddress(T).String(), PayerAddress: sdk.AccAddress(P).String(), Id: id})
		ndReach("refund-of-a-failed-dispute")
		ndAssert(err == nil, "anyone-may-trigger-the-refund")
		ndAssert(bank.get(vbAcc(T)).Equal(t0), "the-signer-gains-nothing")
		ndAssert(bank.get(vbAcc(P)).IsPositive(), "the-payer-receives-the-refund")
	case 0:
		_, err := ms.WithdrawFeeRefund(bctx, &types.MsgWithdrawFeeRefund{CallerAddress: sdk.AccAddress(T).String(), PayerAddress: sdk.AccAddress(P).String(), Id: id})
		ndReach("refund")
		ndAssert(err == nil, "anyone-may-trigger-the-refund")
		ndAssert(bank.get(vbAcc(T)).Equal(t0), "the-signer-gains-nothing")
		ndAssert(bank.get(vbAcc(P)).Equal(S.Sub(B)), "the-payer-receives-the-refund")
	default:
		_, err := ms.ClaimReward(bctx, &types.MsgClaimReward{CallerAddress: sdk.AccAddress(T).String(), DisputeId: id})
		ndReach("claim")
		ndAssert(err != nil, "a-non-voter-cannot-claim")
		ndAssert(bank.get(vbAcc(T)).Equal(t0), "the-signer-gains-nothing")
		vr, verr := k.Voter.Get(ctx, collections.Join(id, V))
		ndAssert(verr == nil && !vr.RewardClaimed, "the-voter's-entitlement-is-untouched")
		ndAssert(bank.modBal("dispute").Equal(S.MulRaw(2)), "escrow-untouched")
	}
}
