package keeper

import (
	"context"
	"time"

	"github.com/tellor-io/layer/x/dispute/types"

	"cosmossdk.io/collections"
	"cosmossdk.io/math"

	sdk "github.com/cosmos/cosmos-sdk/types"
)

// c13Reporter: the reporter keeper during settlement: records what is returned to / added to stake.
type c13Reporter struct {
	types.ReporterKeeper
	returned  math.Int // ReturnSlashedTokens
	refunded  math.Int // FeeRefund (fee paid from stake goes back to stake)
	rewarded  math.Int // AddAmountToStake
	nReturned int
}

func (r *c13Reporter) ReturnSlashedTokens(ctx context.Context, amt math.Int, hashId []byte) error {
	r.returned = r.returned.Add(amt)
	r.nReturned++
	return nil
}

func (r *c13Reporter) FeeRefund(ctx context.Context, hashId []byte, amt math.Int) error {
	r.refunded = r.refunded.Add(amt)
	return nil
}

func (r *c13Reporter) AddAmountToStake(ctx context.Context, acc sdk.AccAddress, amt math.Int) error {
	r.rewarded = r.rewarded.Add(amt)
	return nil
}

// slash amounts: 10^6 (every quotient exact) and, in thorough, an amount that is not divisible by 20
var c13Slash = []int64{1000000, 1000003}

// VerifC13_settlement: one single-round dispute with 1..2 fee payers, executed and fully withdrawn.
//   - ExecuteVote: burn, voters' pot and stake returned as the result implies; executed exactly once
//   - WithdrawFeeRefund: every payer once; never fails for lack of funds
//   - conservation, exact in units of 10^-6 loya: what leaves escrow (burn + stake + refunds + bond rewards + dust
//     burned) plus what stays (voters' pot + carried dust) equals fees paid + stake escrowed
func VerifC13_settlement() {
	bank := newVBank(false)
	rk := &c13Reporter{returned: math.ZeroInt(), refunded: math.ZeroInt(), rewarded: math.ZeroInt()}
	ctx, k := vDisputeKeeper(bank, nil, rk)
	id := uint64(5)
	hash := ndHash("hash")
	S := math.NewInt(c13Slash[ndPick("slash", 1+ndTier())])
	B := S.QuoRaw(20) // as SetNewDispute computes it
	n := 1 + ndLen("npayers", 1)
	payers := [][]byte{ndByteSlice("payer0", 20), ndByteSlice("payer1", 20)}
	ndAssume(!vBytesEq20(payers[0], payers[1]))
	paid := []math.Int{S, math.ZeroInt()}
	if n == 2 {
		p0 := ndBigInt("paid0")
		ndAssume(p0.IsPositive() && p0.LT(S))
		paid = []math.Int{p0, S.Sub(p0)}
	}
	fromBond := []bool{ndBool("fromBond0"), ndBool("fromBond1")}
	results := []types.VoteResult{types.VoteResult_INVALID, types.VoteResult_SUPPORT, types.VoteResult_AGAINST, types.VoteResult_NO_QUORUM_MAJORITY_SUPPORT, types.VoteResult_NO_QUORUM_MAJORITY_INVALID, types.VoteResult_NO_QUORUM_MAJORITY_AGAINST}
	res := results[ndPick("result", 4+2*ndTier())]
	hasVoters := ndBool("hasVoters")
	d := vDispute(id, hash)
	d.DisputeStatus = types.Resolved
	d.Open = false
	d.PendingExecution = true
	d.SlashAmount, d.BurnAmount, d.FeeTotal, d.DisputeFee = S, B, S, S.Sub(B)
	must(k.Disputes.Set(ctx, id, d))
	must(k.Votes.Set(ctx, id, types.Vote{Id: id, VoteStart: time.Unix(1, 0).UTC(), VoteEnd: time.Unix(2, 0).UTC(), VoteResult: res}))
	must(k.BlockInfo.Set(ctx, hash, types.BlockInfo{TotalReporterPower: math.OneInt(), TotalUserTips: math.OneInt()}))
	if hasVoters {
		must(k.VoteCountsByGroup.Set(ctx, id, types.StakeholderVoteCounts{Users: types.VoteCounts{Support: 7}}))
	}
	for i := 0; i < n; i++ {
		must(k.DisputeFeePayer.Set(ctx, collections.Join(id, payers[i]), types.PayerInfo{Amount: paid[i], FromBond: fromBond[i]}))
	}
	d0 := ndBigInt("dust0")
	ndAssume(!d0.IsNegative() && d0.LT(math.NewInt(1000000)))
	must(k.Dust.Set(ctx, d0))
	// escrow: the fees, the slashed stake, and one loya of other funds backing the carried dust
	E0 := S.MulRaw(2).AddRaw(1)
	bank.set(vbMod("dispute"), E0)
	now := time.Unix(100, 0).UTC()
	bctx := ctx.WithBlockTime(now)

	err := k.ExecuteVote(bctx, id)
	ndAssert(err == nil, "execution-succeeds-for-a-resolved-tallied-dispute")
	if err != nil {
		return
	}
	ndReach("executed")
	isInvalid := res == types.VoteResult_INVALID || res == types.VoteResult_NO_QUORUM_MAJORITY_INVALID
	isSupport := res == types.VoteResult_SUPPORT || res == types.VoteResult_NO_QUORUM_MAJORITY_SUPPORT
	halfB := B.QuoRaw(2)
	wantBurn, wantPot := halfB, halfB
	if !hasVoters {
		wantBurn, wantPot = B, math.ZeroInt()
	}
	dd, _ := k.Disputes.Get(ctx, id)
	vv, _ := k.Votes.Get(ctx, id)
	ndAssert(bank.burned.Equal(wantBurn), "burn-is-half-the-burn-amount-or-all-of-it-without-voters")
	ndAssert(dd.VoterReward.Equal(wantPot), "voters-pot-is-the-other-half")
	ndAssert(vv.Executed && !dd.PendingExecution, "marked-executed")
	wantStake := math.ZeroInt()
	if isInvalid {
		wantStake = S
	} else if !isSupport {
		wantStake = S.Add(S.Sub(B)) // against: the bond and the fee (minus burn) go to the reporter's backers
	}
	ndAssert(rk.returned.Equal(wantStake) && bank.modBal("bonded_tokens_pool").Equal(wantStake), "stake-returned-as-the-result-implies")
	// a second execution is rejected and changes nothing
	burnedBefore := bank.burned
	err2 := k.ExecuteVote(bctx, id)
	ndAssert(err2 != nil && bank.burned.Equal(burnedBefore) && rk.nReturned <= 1, "execution-happens-once")

	// every payer withdraws
	ms := NewMsgServerImpl(k)
	toAccounts := math.ZeroInt()
	for i := 0; i < n; i++ {
		before := bank.get(vbAcc(payers[i]))
		_, werr := ms.WithdrawFeeRefund(bctx, &types.MsgWithdrawFeeRefund{CallerAddress: sdk.AccAddress(payers[i]).String(), PayerAddress: sdk.AccAddress(payers[i]).String(), Id: id})
		if isInvalid || isSupport {
			ndAssert(werr == nil, "entitled-payer-can-withdraw")
			_, gerr := k.DisputeFeePayer.Get(ctx, collections.Join(id, payers[i]))
			ndAssert(gerr != nil, "payer-record-removed-after-withdrawal")
			_, werr2 := ms.WithdrawFeeRefund(bctx, &types.MsgWithdrawFeeRefund{CallerAddress: sdk.AccAddress(payers[i]).String(), PayerAddress: sdk.AccAddress(payers[i]).String(), Id: id})
			ndAssert(werr2 != nil, "second-withdrawal-rejected")
		} else {
			ndAssert(werr != nil, "no-refund-when-the-reporter-won")
		}
		toAccounts = toAccounts.Add(bank.get(vbAcc(payers[i])).Sub(before))
	}
	ndReach("withdrawn")
	dust1, derr := k.Dust.Get(ctx)
	ndAssert(derr == nil && !dust1.IsNegative() && dust1.LT(math.NewInt(1000000)), "carried-dust-below-one-unit")
	// conservation in units of 10^-6 loya
	E1 := bank.modBal("dispute")
	M := int64(1000000)
	lhs := E1.MulRaw(M).Sub(dust1)                          // escrow left minus the dust it backs
	rhs := E0.Sub(S.MulRaw(2)).MulRaw(M).Sub(d0).Add(dd.VoterReward.MulRaw(M)) // other funds + voters' pot
	// exact when every quotient is exact (slash amount 10^6); in general each payer's refund is truncated to a whole
	// 10^-6 loya before the remainder is carried as dust, so escrow keeps up to one such micro-unit per payer more than
	// the carried dust accounts for - never less
	ndAssert(lhs.GTE(rhs) && lhs.Sub(rhs).LT(math.NewInt(int64(2*n))), "escrow-left-is-the-voters-pot-and-the-carried-dust-up-to-a-micro-unit-per-payment")
	ndAssert(E1.GTE(dd.VoterReward), "escrow-covers-the-unclaimed-voter-rewards")
	// nothing was created: escrow decrease = burned + to bonded pool + to accounts
	ndAssert(E0.Sub(E1).Equal(bank.burned.Add(bank.modBal("bonded_tokens_pool")).Add(toAccounts)), "escrow-decrease-equals-burn-plus-stake-plus-refunds")
	ndAssert(bank.minted.IsZero(), "nothing-minted")
}

func vBytesEq20(a, b []byte) bool {
	eq := true
	for i := range a {
		eq = ndAnd(eq, a[i] == b[i])
	}
	return eq
}
