package keeper

import (
	"time"

	"github.com/tellor-io/layer/x/dispute/types"
	oracletypes "github.com/tellor-io/layer/x/oracle/types"

	"cosmossdk.io/math"

	sdk "github.com/cosmos/cosmos-sdk/types"
)

var c12Statuses = []types.DisputeStatus{types.Unresolved, types.Prevote, types.Voting, types.Resolved, types.Failed}

// VerifC12_new_round: ProposeDispute on a report that already has a dispute (any status, open or closed, any
// deadline, round 1..5): a new round starts only from an open, unresolved dispute whose deadline has not passed and
// only against the round fee 5% * 2^round of the slash amount (capped at the slash amount), which is exactly what
// the proposer pays; the old round is closed, the new one (next id, round + 1) is in voting for two days with a
// three-day deadline, carries the history, and nobody is slashed again. A second attempt right away is refused.
// Anything else is refused without any change.
func VerifC12_new_round() {
	bank := newVBank(false)
	rk := &c11Reporter2{c11Reporter{escrowAmt: math.ZeroInt(), feeFromStk: math.ZeroInt()}}
	ok := &c11Oracle2{}
	ctx, k := vDisputeKeeper(bank, ok, rk)
	cat := []types.DisputeCategory{types.Warning, types.Minor, types.Major}[ndPick("category", 3)]
	reporter := ndByteSlice("reporter", 20)
	report := oracletypes.MicroReport{Reporter: sdk.AccAddress(reporter).String(), Power: 77, QueryId: ndHash("qid"), BlockNumber: 40, Value: "aa", Timestamp: time.Unix(7, 0).UTC()}
	hash := k.HashId(ctx, report, cat)
	S := ndBigInt("slashAmount")
	ndAssume(S.GTE(math.NewInt(10000)))
	ndAssume(S.LT(math.NewIntWithDecimal(1, 15)))
	round := uint64(1 + ndLen("round", 4))
	status := c12Statuses[ndPick("status", len(c12Statuses))]
	open := ndBool("open")
	end := ndTime("deadline")
	now := ndTime("now")
	burn0, fee0 := ndBigInt("burnSoFar"), ndBigInt("feesSoFar")
	ndAssume(!burn0.IsNegative())
	ndAssume(burn0.LT(math.NewIntWithDecimal(1, 18)))
	ndAssume(!fee0.IsNegative())
	ndAssume(fee0.LT(math.NewIntWithDecimal(1, 18)))
	const oldID, otherID = uint64(4), uint64(9)
	d := vDispute(oldID, hash[:])
	d.DisputeCategory, d.DisputeStatus, d.Open, d.DisputeEndTime, d.DisputeRound = cat, status, open, end, round
	pending := ndBool("pendingExecution") // a tallied round waits for execution until its deadline
	d.PendingExecution = pending
	d.SlashAmount, d.BurnAmount, d.FeeTotal, d.DisputeFee = S, burn0, fee0, S
	d.InitialEvidence = report
	d.PrevDisputeIds = []uint64{2, oldID}[2-int(min64(round, 2)):]
	d.BlockNumber = 40
	must(k.Disputes.Set(ctx, oldID, d))
	// an unrelated dispute with a higher id
	other := vDispute(otherID, ndHash("otherHash"))
	other.InitialEvidence = oracletypes.MicroReport{Reporter: sdk.AccAddress(ndByteSlice("otherReporter", 20)).String(), Power: 5, QueryId: ndHash("otherQid"), BlockNumber: 41, Value: "bb", Timestamp: time.Unix(8, 0).UTC()}
	other.Open = false
	must(k.Disputes.Set(ctx, otherID, other))
	sender := ndByteSlice("sender", 20)
	offered := ndBigInt("offered")
	ndAssume(offered.LT(math.NewIntWithDecimal(1, 30)))
	bal := ndBigInt("senderBalance")
	ndAssume(!bal.IsNegative())
	ndAssume(bal.LT(math.NewIntWithDecimal(1, 30)))
	bank.set(vbAcc(sender), bal)
	bctx := ctx.WithBlockTime(now).WithBlockHeight(90)
	msg := &types.MsgProposeDispute{Creator: sdk.AccAddress(sender).String(), Report: &report, DisputeCategory: cat, Fee: sdk.Coin{Denom: "loya", Amount: offered}, PayFromBond: false}
	_, err := NewMsgServerImpl(k).ProposeDispute(bctx, msg)
	// the round fee: 5% of the slash amount doubled per round already held, capped at the slash amount
	roundFee := S.QuoRaw(20).MulRaw(int64(1) << round)
	roundFee = ndIteBig(roundFee.GT(S), S, roundFee)
	after, aerr := k.Disputes.Get(ctx, oldID)
	must(aerr)
	newID := otherID + 1
	nd, nerr := k.Disputes.Get(ctx, newID)
	if err != nil {
		ndReach("refused")
		ndAssert(nerr != nil, "refused-proposal-opens-no-round")
		ndAssert(after.Open == open && after.PendingExecution == pending && after.DisputeStatus == status && after.DisputeRound == round && after.FeeTotal.Equal(fee0) && after.BurnAmount.Equal(burn0), "refused-proposal-leaves-the-dispute-as-it-was")
		ndAssert(bank.get(vbAcc(sender)).Equal(bal) && bank.modBal("dispute").IsZero(), "refused-proposal-takes-no-fee")
		ndAssert(rk.nEscrow == 0 && rk.nJail == 0 && ok.nFlag == 0, "refused-proposal-slashes-nobody")
		return
	}
	ndReach("new-round")
	ndAssert(status == types.Unresolved, "a-new-round-starts-only-from-an-unresolved-dispute")
	ndAssert(open, "a-new-round-starts-only-from-an-open-dispute")
	ndAssert(!end.Before(now), "a-new-round-starts-only-before-the-deadline")
	ndAssert(offered.GTE(roundFee), "the-offer-covers-the-round-fee")
	ndAssert(bank.get(vbAcc(sender)).Equal(bal.Sub(roundFee)) && bank.modBal("dispute").Equal(roundFee), "the-proposer-pays-exactly-the-doubling-round-fee")
	ndAssert(!after.Open && !after.PendingExecution && after.DisputeStatus == types.Unresolved && after.DisputeRound == round, "the-old-round-is-closed-no-longer-awaits-execution-and-is-otherwise-unchanged")
	ndAssert(nerr == nil, "the-new-round-gets-the-next-free-id")
	if nerr == nil {
		ndAssert(nd.DisputeRound == round+1 && nd.DisputeStatus == types.Voting && nd.Open, "new-round-is-in-voting")
		ndAssert(nd.DisputeStartTime.Equal(now) && nd.DisputeEndTime.Equal(now.Add(72*time.Hour)), "new-round-has-a-three-day-deadline")
		ndAssert(nd.SlashAmount.Equal(S) && string(nd.HashId) == string(hash[:]) && nd.DisputeCategory == cat, "new-round-is-about-the-same-report")
		// voting power in every round is taken as of the dispute's block: the new round keeps it
		ndAssert(nd.BlockNumber == d.BlockNumber && nd.InitialEvidence.BlockNumber == report.BlockNumber, "new-round-keeps-the-dispute's-block")
		ndAssert(nd.BurnAmount.Equal(burn0.Add(roundFee)) && nd.FeeTotal.Equal(fee0.Add(roundFee)), "round-fee-is-added-to-fees-and-burn")
		ndAssert(len(nd.PrevDisputeIds) == len(d.PrevDisputeIds)+1 && nd.PrevDisputeIds[len(nd.PrevDisputeIds)-1] == newID, "history-of-rounds-is-extended")
		v, verr := k.Votes.Get(ctx, newID)
		ndAssert(verr == nil && v.VoteStart.Equal(now) && v.VoteEnd.Equal(now.Add(48*time.Hour)) && v.VoteResult == types.VoteResult_NO_TALLY && !v.Executed, "voting-opens-for-two-days")
	}
	ndAssert(rk.nEscrow == 0 && rk.nJail == 0 && ok.nFlag == 0, "nobody-is-slashed-again")
	// a second proposal right away meets the new round, which is in voting: refused
	_, err2 := NewMsgServerImpl(k).ProposeDispute(bctx, msg)
	_, n2err := k.Disputes.Get(ctx, newID+1)
	ndAssert(err2 != nil && n2err != nil, "no-second-round-from-the-same-transition")
}

func min64(a, b uint64) uint64 {
	if a < b {
		return a
	}
	return b
}
