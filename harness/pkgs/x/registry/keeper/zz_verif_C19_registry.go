package keeper

import (
	"github.com/tellor-io/layer/x/registry/types"

	sdk "github.com/cosmos/cosmos-sdk/types"
	authtypes "github.com/cosmos/cosmos-sdk/x/auth/types"
)

func c19RegistryKeeper() (sdk.Context, Keeper) {
	ctx, ss, cdc := ndEnv("registry")
	k := NewKeeper(cdc, ss, authtypes.NewModuleAddress("gov").String())
	if err := k.Params.Set(ctx, types.Params{MaxReportBufferWindow: 100000}); err != nil {
		panic(err)
	}
	return ctx, k
}

// c19Name: an ASCII query-type name of n symbolic bytes.
func c19Name(name string, n int) string {
	s := ndStr(name, n)
	for i := 0; i < n; i++ {
		ndAssume(s[i] < 128)
	}
	return s
}

// VerifC19_register_spec: a registered data spec cannot be replaced by re-registration, whatever spelling of a
// query type the message uses.
func VerifC19_register_spec() {
	ctx, k := c19RegistryKeeper()
	// a registered spec under a lower-case name (SetDataSpec stores lower-case keys)
	reg := c19Name("registered", 3)
	for i := 0; i < 3; i++ {
		ndAssume(reg[i] >= 'a' && reg[i] <= 'z')
	}
	if err := k.SpecRegistry.Set(ctx, reg, types.DataSpec{DocumentHash: "original", ResponseValueType: "uint256", AggregationMethod: "weighted-median", Registrar: "owner", ReportBlockWindow: 5}); err != nil {
		panic(err)
	}
	qt := c19Name("msgQueryType", 3+ndLen("extra", 1))
	_, err := NewMsgServerImpl(k).RegisterSpec(ctx, &types.MsgRegisterSpec{Registrar: "somebody", QueryType: qt, Spec: types.DataSpec{DocumentHash: "replacement", ResponseValueType: "uint256", AggregationMethod: "weighted-mode", ReportBlockWindow: 7}})
	after, gerr := k.SpecRegistry.Get(ctx, reg)
	ndAssert(gerr == nil && after.DocumentHash == "original" && after.Registrar == "owner" && after.AggregationMethod == "weighted-median" && after.ReportBlockWindow == 5, "registered-spec-survives-any-re-registration")
	if err == nil {
		ndReach("registered-new")
	} else {
		ndReach("rejected")
	}
}

// VerifC19_update_spec: only the governance authority updates a data spec; anybody else changes nothing.
func VerifC19_update_spec() {
	ctx, k := c19RegistryKeeper()
	if err := k.SpecRegistry.Set(ctx, "abc", types.DataSpec{DocumentHash: "original", ResponseValueType: "uint256", AggregationMethod: "weighted-median", ReportBlockWindow: 5}); err != nil {
		panic(err)
	}
	signer := ndString("signer")
	asAuthority := ndBool("asAuthority")
	if asAuthority {
		signer = k.GetAuthority()
	} else {
		ndAssume(signer != k.GetAuthority())
	}
	_, err := NewMsgServerImpl(k).UpdateDataSpec(ctx, &types.MsgUpdateDataSpec{Authority: signer, QueryType: "abc", Spec: types.DataSpec{DocumentHash: "changed", ResponseValueType: "uint256", AggregationMethod: "weighted-median", ReportBlockWindow: 9}})
	after, _ := k.SpecRegistry.Get(ctx, "abc")
	if err == nil {
		ndReach("accepted")
		ndAssert(asAuthority, "only-the-governance-authority-updates-a-spec")
	} else {
		ndReach("rejected")
	}
	if !asAuthority {
		ndAssert(err != nil && after.DocumentHash == "original" && after.ReportBlockWindow == 5, "non-authority-is-rejected-and-changes-nothing")
	}
}
