package keeper

import (
	"context"
	"errors"
	"math/big"

	"github.com/tellor-io/layer/utils"
	"github.com/tellor-io/layer/x/oracle/types"
	regtypes "github.com/tellor-io/layer/x/registry/types"

	"cosmossdk.io/collections"
	"cosmossdk.io/math"

	"github.com/ethereum/go-ethereum/accounts/abi"

	sdk "github.com/cosmos/cosmos-sdk/types"
)

type c07Registry struct{ window uint64 }

// c07Window: the report window of the query's data spec as it is NOW (governance may have changed it since the
// stored round was opened): any length from one block to 2^32 - 1.
func c07Window() uint64 {
	w := ndUint64("window")
	ndAssume(w >= 1 && w < 1<<32)
	return w
}

func (r c07Registry) GetSpec(ctx context.Context, queryType string) (regtypes.DataSpec, error) {
	return regtypes.DataSpec{ResponseValueType: "uint256", AggregationMethod: "weighted-median", ReportBlockWindow: r.window}, nil
}

// c07QueryData: abi.encode(string queryType, bytes args) as the registry encodes query data.
func c07QueryData(queryType string, args []byte) []byte {
	strT, _ := abi.NewType("string", "", nil)
	bytesT, _ := abi.NewType("bytes", "", nil)
	b, err := abi.Arguments{{Type: strT}, {Type: bytesT}}.Pack(queryType, args)
	if err != nil {
		panic(err)
	}
	return b
}

func c07BridgeArgs(toLayer bool, id uint64) []byte {
	boolT, _ := abi.NewType("bool", "", nil)
	u256T, _ := abi.NewType("uint256", "", nil)
	b, err := abi.Arguments{{Type: boolT}, {Type: u256T}}.Pack(toLayer, new(big.Int).SetUint64(id))
	if err != nil {
		panic(err)
	}
	return b
}

const c07Value = "0000000000000000000000000000000000000000000000000000000000000001"
const c07Value2 = "0000000000000000000000000000000000000000000000000000000000000002"

var errC07Jailed = errors.New("reporter jailed")

// VerifC07_submit: SubmitValue from an arbitrary round state. Accepted only if (tip > 0 or cycle-list query or
// bridge deposit), the window has not closed, the reporter is not jailed and holds the minimum stake; withdrawal
// queries are never reportable; the report is stored under (queryId, reporter, round id) with power = stake / 10^6.
func VerifC07_submit() {
	kind := ndPick("kind", 3) // 0 ordinary query, 1 bridge deposit, 2 bridge withdrawal
	var qd []byte
	switch kind {
	case 0:
		qd = c07QueryData("SpotPrice", ndByteSlice("args", 32))
	case 1:
		qd = c07QueryData("TRBBridge", c07BridgeArgs(true, ndUint64("depositId")))
	default:
		qd = c07QueryData("TRBBridge", c07BridgeArgs(false, ndUint64("withdrawId")))
	}
	qid := utils.QueryIDFromData(qd)
	rep := &vRepStub{stake: ndBigInt("stake")}
	ndAssume(!rep.stake.IsNegative() && rep.stake.LT(math.NewIntWithDecimal(1, 24)))
	jailed := ndBool("jailed")
	if jailed {
		rep.stakeErr = errC07Jailed
	}
	ctx, k := vOracleKeeper(rep, newVBank(false), c07Registry{window: c07Window()})
	minStake := ndBigInt("minStake")
	ndAssume(minStake.IsPositive() && minStake.LT(math.NewIntWithDecimal(1, 24)))
	if err := k.Params.Set(ctx, types.Params{MinStakeAmount: minStake}); err != nil {
		panic(err)
	}
	if err := k.QuerySequencer.Set(ctx, 50); err != nil {
		panic(err)
	}
	hasRound := ndBool("hasRound")
	tip := ndBigInt("tip")
	ndAssume(!tip.IsNegative() && tip.LT(math.NewIntWithDecimal(1, 24)))
	exp := ndUint64("expiration")
	inCycle := ndBool("inCycle")
	ndAssume(exp < 1<<40)
	hadReports := ndBool("roundAlreadyHasReports")
	if hasRound {
		if err := k.Query.Set(ctx, collections.Join(qid, uint64(7)), types.QueryMeta{Id: 7, Amount: tip, Expiration: exp, RegistrySpecBlockWindow: 10, QueryData: qd, CycleList: inCycle, QueryType: "SpotPrice", HasRevealedReports: hadReports}); err != nil {
			panic(err)
		}
	}
	h := ndInt64("height")
	ndAssume(h >= 1 && h < 1<<40)
	// an older round of the same query may linger (expired, untipped, its reports waiting for this block's aggregation)
	lingering := hasRound && ndBool("olderRoundLingers")
	if lingering {
		if err := k.Query.Set(ctx, collections.Join(qid, uint64(3)), types.QueryMeta{Id: 3, Amount: math.ZeroInt(), Expiration: uint64(h), RegistrySpecBlockWindow: 10, QueryData: qd, QueryType: "SpotPrice", HasRevealedReports: true}); err != nil {
			panic(err)
		}
		ndAssume(exp > uint64(h)) // the newer round is the open one
	}
	bctx := ctx.WithBlockHeight(h)
	reporter := ndByteSlice("reporter", 20)
	ms := NewMsgServerImpl(k)
	_, err := ms.SubmitValue(bctx, &types.MsgSubmitValue{Creator: sdk.AccAddress(reporter).String(), QueryData: qd, Value: c07Value})
	if err != nil {
		ndReach("rejected")
		return
	}
	ndReach("accepted")
	if lingering {
		_, oerr := k.Reports.Get(ctx, collections.Join3(qid, reporter, uint64(3)))
		older, _ := k.Query.Get(ctx, collections.Join(qid, uint64(3)))
		ndAssert(oerr != nil && older.Expiration == uint64(h), "a-report-never-enters-an-older-round-that-is-closing")
	}
	ndAssert(kind != 2, "withdrawal-queries-are-never-reportable")
	ndAssert(!jailed, "jailed-reporter-cannot-report")
	ndAssert(rep.stake.GTE(minStake), "reporter-holds-at-least-the-minimum-stake")
	ndAssert(kind == 1 || (hasRound && (tip.IsPositive() || inCycle)), "query-carries-a-tip-or-is-the-cycle-list-query-or-is-a-deposit")
	cur, cerr := k.CurrentQuery(ctx, qid)
	ndAssert(cerr == nil && cur.HasRevealedReports, "round-marked-as-having-reports")
	if cerr != nil {
		return
	}
	ndAssert(uint64(h) <= cur.Expiration, "window-not-closed-at-this-height")
	r, rerr := k.Reports.Get(ctx, collections.Join3(qid, reporter, cur.Id))
	ndAssert(rerr == nil && r.Value == c07Value && r.BlockNumber == uint64(h), "report-stored-under-query-reporter-round")
	ndAssert(rerr == nil && math.NewIntFromUint64(r.Power).Equal(rep.stake.QuoRaw(1000000)), "report-power-is-whole-tokens-of-stake")
	// a later report by the same reporter in the same round replaces the earlier one
	_, err2 := ms.SubmitValue(bctx, &types.MsgSubmitValue{Creator: sdk.AccAddress(reporter).String(), QueryData: qd, Value: c07Value2})
	if err2 == nil {
		cur2, _ := k.CurrentQuery(ctx, qid)
		r2, r2err := k.Reports.Get(ctx, collections.Join3(qid, reporter, cur2.Id))
		ndAssert(cur2.Id == cur.Id && r2err == nil && r2.Value == c07Value2, "later-report-in-the-round-replaces-the-earlier-one")
		ndReach("replaced")
	}
}

// VerifC07_tip: one Tip on an arbitrary round state: 2% burned from the oracle account, the rest accumulates on the
// query; an expired round is re-opened for its window and leaves the cycle list, an open one keeps its expiration;
// the oracle account grows by exactly what the query's tip grows.
func VerifC07_tip() {
	bank := newVBank(false)
	window := c07Window()
	ctx, k := vOracleKeeper(&vRepStub{}, bank, c07Registry{window: window})
	qd := c07QueryData("SpotPrice", ndByteSlice("args", 32))
	qid := utils.QueryIDFromData(qd)
	if err := k.QuerySequencer.Set(ctx, 50); err != nil {
		panic(err)
	}
	hasRound := ndBool("hasRound")
	before := ndBigInt("tipBefore")
	ndAssume(!before.IsNegative() && before.LT(math.NewIntWithDecimal(1, 24)))
	exp := ndUint64("expiration")
	ndAssume(exp < 1<<40)
	inCycle := ndBool("inCycle")
	// the window recorded in the round when it was opened (governance may have changed the spec's window since)
	recorded := ndUint64("recordedWindow")
	ndAssume(recorded >= 1 && recorded < 1<<32)
	if hasRound {
		if err := k.Query.Set(ctx, collections.Join(qid, uint64(7)), types.QueryMeta{Id: 7, Amount: before, Expiration: exp, RegistrySpecBlockWindow: recorded, QueryData: qd, CycleList: inCycle, QueryType: "SpotPrice"}); err != nil {
			panic(err)
		}
		bank.set(vbMod("oracle"), before) // invariant O5: the oracle account holds the unpaid tips
	} else {
		before = math.ZeroInt()
	}
	amount := ndBigInt("amount")
	ndAssume(amount.LT(math.NewIntWithDecimal(1, 24)))
	tipper := ndByteSlice("tipper", 20)
	bal := ndBigInt("tipperBalance")
	ndAssume(!bal.IsNegative() && bal.LT(math.NewIntWithDecimal(1, 25)))
	bank.set(vbAcc(tipper), bal)
	h := ndInt64("height")
	ndAssume(h >= 1 && h < 1<<40)
	_, err := NewMsgServerImpl(k).Tip(ctx.WithBlockHeight(h), &types.MsgTip{Tipper: sdk.AccAddress(tipper).String(), QueryData: qd, Amount: sdk.Coin{Denom: "loya", Amount: amount}})
	if err != nil {
		ndReach("rejected")
		ndAssert(bank.burned.IsZero() && bank.modBal("oracle").Equal(before), "rejected-tip-moves-and-burns-nothing")
		return
	}
	ndReach("accepted")
	ndAssert(amount.IsPositive(), "only-positive-tips")
	burn := amount.MulRaw(2).QuoRaw(100)
	ndAssert(bank.burned.Equal(burn), "two-percent-of-the-tip-is-burned")
	ndAssert(bank.get(vbAcc(tipper)).Equal(bal.Sub(amount)), "tipper-debited-exactly-the-tip")
	ndAssert(bank.minted.IsZero(), "nothing-minted")
	cur, cerr := k.CurrentQuery(ctx, qid)
	ndAssert(cerr == nil, "round-exists-after-the-tip")
	if cerr != nil {
		return
	}
	ndAssert(cur.Amount.Equal(before.Add(amount.Sub(burn))), "tip-accumulates-on-the-query-unpaid-tip-kept")
	ndAssert(bank.modBal("oracle").Equal(cur.Amount), "oracle-account-holds-exactly-the-unpaid-tip")
	if hasRound && uint64(h) <= exp {
		ndAssert(cur.Expiration == exp && cur.CycleList == inCycle && cur.Id == 7, "open-round-keeps-its-window")
	}
	if hasRound && uint64(h) > exp {
		ndAssert(cur.Expiration == uint64(h)+recorded && !cur.CycleList, "expired-round-reopened-for-its-window-and-off-the-cycle-list")
	}
	if !hasRound {
		ndAssert(cur.Expiration == uint64(h)+window, "new-round-opens-for-the-spec-window")
	}
}
