package keeper

// VerifC01_mode_deterministic: the same report set aggregated twice (two independent hash-map iteration
// orders) yields the same aggregate. [map-order]
func VerifC01_mode_deterministic() {
	ctx, _, _ := ndEnv("oracle")
	n := 1 + ndLen("n", c01N())
	reports := vReports(n, 3, "")
	second := vCopyReports(reports)
	var k Keeper
	a1, err1 := k.WeightedMode(ctx, reports, 9)
	a2, err2 := k.WeightedMode(ctx, second, 9)
	ndAssert(err1 == nil && err2 == nil, "no-error")
	if err1 != nil || err2 != nil {
		return
	}
	ndReach("both-aggregated")
	ndAssert(a1.AggregateValue == a2.AggregateValue, "same-aggregate-value-in-both-executions")
	ndAssert(a1.AggregateReporter == a2.AggregateReporter, "same-aggregate-reporter-in-both-executions")
	ndAssert(a1.AggregateReportIndex == a2.AggregateReportIndex && a1.MicroHeight == a2.MicroHeight, "same-index-and-height-in-both-executions")
}

func c01N() int {
	if ndTier() > 0 {
		return 3
	}
	return 2
}
