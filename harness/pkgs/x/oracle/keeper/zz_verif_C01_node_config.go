package keeper

import (
	"github.com/tellor-io/layer/utils"
	"github.com/tellor-io/layer/x/oracle/types"

	"cosmossdk.io/collections"
	"cosmossdk.io/math"

	sdk "github.com/cosmos/cosmos-sdk/types"
)

// VerifC01_node_config: the same Tip message executed on two nodes that differ only in their local configuration
// (the telemetry switch is arbitrary per node) from the same state: same outcome, same resulting state, and the same
// store accesses (natively: the same gas consumed - gas feeds the block's results hash and decides out-of-gas).
func VerifC01_node_config() {
	qd := c07QueryData("SpotPrice", []byte("qA"))
	qid := utils.QueryIDFromData(qd)
	tipper := ndByteSlice("tipper", 20)
	amount := ndBigInt("amount")
	ndAssume(amount.GT(math.NewInt(-10)))
	ndAssume(amount.LT(math.NewInt(1000000000)))
	hasRound := ndBool("hasRound")
	before := ndBigInt("tipBefore")
	ndAssume(!before.IsNegative())
	ndAssume(before.LT(math.NewInt(1000000000)))
	exp := ndUint64("expiration")
	ndAssume(exp < 1<<40)
	prevTotal := ndBigInt("tipperTotalBefore")
	ndAssume(!prevTotal.IsNegative())
	ndAssume(prevTotal.LT(math.NewInt(1000000000)))
	hasPrev := ndBool("tipperTippedBefore")
	h := ndInt64("height")
	ndAssume(h >= 2)
	ndAssume(h < 1<<40)
	type node struct {
		ctx  sdk.Context
		k    Keeper
		bank *vBank
		err  error
		gas  uint64
	}
	var nodes [2]node
	for i := 0; i < 2; i++ {
		bank := newVBank(false)
		ctx, k := vOracleKeeper(&vRepStub{}, bank, c07Registry{window: 10})
		must(k.QuerySequencer.Set(ctx, 50))
		if hasRound {
			must(k.Query.Set(ctx, collections.Join(qid, uint64(7)), types.QueryMeta{Id: 7, Amount: before, Expiration: exp, RegistrySpecBlockWindow: 10, QueryData: qd, QueryType: "SpotPrice"}))
			bank.set(vbMod("oracle"), before)
		}
		if hasPrev {
			must(k.TipperTotal.Set(ctx, collections.Join(tipper, uint64(1)), prevTotal))
		}
		bank.set(vbAcc(tipper), math.NewInt(2000000000))
		nodes[i] = node{ctx: ctx.WithBlockHeight(h), k: k, bank: bank}
	}
	for i := 0; i < 2; i++ {
		ndNodeConfig(i)
		g0 := ndGas(nodes[i].ctx)
		_, nodes[i].err = NewMsgServerImpl(nodes[i].k).Tip(nodes[i].ctx, &types.MsgTip{Tipper: sdk.AccAddress(tipper).String(), QueryData: qd, Amount: sdk.Coin{Denom: "loya", Amount: amount}})
		nodes[i].gas = ndGas(nodes[i].ctx) - g0
	}
	ndReach("ran")
	ndAssert((nodes[0].err == nil) == (nodes[1].err == nil), "same-outcome-on-both-nodes")
	ndAssert(nodes[0].gas == nodes[1].gas, "same-store-accesses-on-both-nodes")
	ndAssert(nodes[0].bank.get(vbAcc(tipper)).Equal(nodes[1].bank.get(vbAcc(tipper))) && nodes[0].bank.burned.Equal(nodes[1].bank.burned), "same-coins-moved-on-both-nodes")
	m0, e0 := nodes[0].k.CurrentQuery(nodes[0].ctx, qid)
	m1, e1 := nodes[1].k.CurrentQuery(nodes[1].ctx, qid)
	ndAssert((e0 == nil) == (e1 == nil), "same-round-on-both-nodes")
	if e0 == nil && e1 == nil {
		ndAssert(m0.Amount.Equal(m1.Amount) && m0.Expiration == m1.Expiration && m0.Id == m1.Id, "same-round-state-on-both-nodes")
	}
}
