package keeper

import (
	"github.com/tellor-io/layer/utils"
	"github.com/tellor-io/layer/x/oracle/types"

	"cosmossdk.io/collections"
	"cosmossdk.io/math"
)

var c02Names = []string{"qA", "qB", "qC"}

// c02Cyclelist stores n cycle-list queries and returns their query data in store (query id) order.
func c02Cyclelist(ctxk Keeper, set func(qid, qd []byte), n int) [][]byte {
	qds := make([][]byte, n)
	for i := 0; i < n; i++ {
		qds[i] = c07QueryData("SpotPrice", []byte(c02Names[i]))
		set(utils.QueryIDFromData(qds[i]), qds[i])
	}
	return qds
}

// VerifC02_rotate: RotateQueries from any state satisfying O1 (cycle list non-empty, sequencer < length) returns nil,
// does not panic and re-establishes O1; the sequencer moves only when the current query has no open window, and then
// to (i+1) mod n.
func VerifC02_rotate() {
	window := c07Window()
	ctx, k := vOracleKeeper(&vRepStub{}, newVBank(false), c07Registry{window: window})
	n := 1 + ndLen("n", 2)
	c02Cyclelist(k, func(qid, qd []byte) {
		if err := k.Cyclelist.Set(ctx, qid, qd); err != nil {
			panic(err)
		}
	}, n)
	idx := uint64(ndLen("idx", 2))
	ndAssume(idx < uint64(n))
	if err := k.CyclelistSequencer.Set(ctx, idx); err != nil {
		panic(err)
	}
	if err := k.QuerySequencer.Set(ctx, 100); err != nil {
		panic(err)
	}
	h := ndInt64("height")
	ndAssume(h >= 1 && h < 1<<40)
	bctx := ctx.WithBlockHeight(h)
	// the current query's round: absent, or present with arbitrary expiration / tip / reports flag
	cur, cerr := k.GetCurrentQueryInCycleList(ctx)
	if cerr != nil {
		panic(cerr)
	}
	curId := utils.QueryIDFromData(cur)
	hasRound := ndBool("hasRound")
	exp := ndUint64("expiration")
	ndAssume(exp < 1<<40)
	if hasRound {
		tip := ndBigInt("tip")
		ndAssume(!tip.IsNegative() && tip.LT(math.NewInt(1000000)))
		if err := k.Query.Set(ctx, collections.Join(curId, uint64(5)), types.QueryMeta{Id: 5, Amount: tip, Expiration: exp, RegistrySpecBlockWindow: 10, QueryData: cur, CycleList: true, HasRevealedReports: ndBool("hasReports")}); err != nil {
			panic(err)
		}
	}
	// the round of the query the list moves to (when that is another query): absent, or present in any state the
	// aggregation step (which runs first) can leave behind: not both expired and holding reports
	nextIdx := (idx + 1) % uint64(n)
	list, lerr := k.GetCyclelist(ctx) // store order
	if lerr != nil {
		panic(lerr)
	}
	nextQd := list[nextIdx]
	nextId := utils.QueryIDFromData(nextQd)
	nextHas := false
	ntip, nexp := math.ZeroInt(), uint64(0)
	if nextIdx != idx {
		nextHas = ndBool("nextHasRound")
		if nextHas {
			ntip, nexp = ndBigInt("nextTip"), ndUint64("nextExpiration")
			ndAssume(!ntip.IsNegative())
			ndAssume(ntip.LT(math.NewInt(1000000)))
			ndAssume(nexp < 1<<40)
			nrep := ndBool("nextHasReports")
			ndAssume(!(nrep && nexp <= uint64(h)))
			if err := k.Query.Set(ctx, collections.Join(nextId, uint64(7)), types.QueryMeta{Id: 7, Amount: ntip, Expiration: nexp, RegistrySpecBlockWindow: 10, QueryData: nextQd, CycleList: ndBool("nextInCycle"), HasRevealedReports: nrep}); err != nil {
				panic(err)
			}
		}
	} else if hasRound {
		// a one-element list moves to the same query: its own round is the round it moves to
		cm, gerr := k.Query.Get(ctx, collections.Join(curId, uint64(5)))
		if gerr != nil {
			panic(gerr)
		}
		ndAssume(!(cm.HasRevealedReports && exp <= uint64(h)))
		nextHas, ntip, nexp = true, cm.Amount, exp
	}
	err := k.RotateQueries(bctx)
	ndAssert(err == nil, "rotate-returns-nil")
	after, perr := k.CyclelistSequencer.Peek(ctx)
	ndAssert(perr == nil && after < uint64(n), "sequencer-stays-inside-the-cycle-list")
	open := hasRound && exp > uint64(h)
	if open {
		ndReach("window-open")
		ndAssert(after == idx, "no-rotation-while-the-current-query-has-an-open-window")
	} else {
		ndReach("rotated")
		ndAssert(after == (idx+1)%uint64(n), "rotation-moves-to-the-next-query-wrapping-around")
		// the query moved to has an open, in-cycle round afterwards, and a tip that no report collected stays with it
		nm2, nerr := k.CurrentQuery(ctx, nextId)
		ndAssert(nerr == nil, "the-query-moved-to-has-a-round")
		if nerr == nil {
			ndAssert(nm2.Amount.Equal(ntip), "an-uncollected-tip-stays-with-the-query")
			if nextHas && ntip.IsPositive() {
				ndAssert(nm2.CycleList && nm2.Expiration > uint64(h), "tipped-round-is-in-the-cycle-and-open")
			}
			if !nextHas || (ntip.IsZero() && nexp < uint64(h)) {
				ndAssert(nm2.CycleList && nm2.Expiration == uint64(h)+window, "fresh-round-opens-for-the-window")
			}
		}
	}
}

// VerifC02_update_cyclelist: governance replaces the cycle list; afterwards O1 must hold again (list non-empty,
// sequencer inside it), otherwise the next EndBlocker indexes past the list. (C02-F3, repaired: the sequencer was not
// reset and an empty list was accepted.)
func VerifC02_update_cyclelist() {
	ctx, k := vOracleKeeper(&vRepStub{}, newVBank(false), c07Registry{window: 10})
	n := 1 + ndLen("n", 2)
	c02Cyclelist(k, func(qid, qd []byte) {
		if err := k.Cyclelist.Set(ctx, qid, qd); err != nil {
			panic(err)
		}
	}, n)
	idx := uint64(ndLen("idx", 2))
	ndAssume(idx < uint64(n))
	if err := k.CyclelistSequencer.Set(ctx, idx); err != nil {
		panic(err)
	}
	if err := k.QuerySequencer.Set(ctx, 100); err != nil {
		panic(err)
	}
	m := ndLen("newLen", 3)
	newList := make([][]byte, m)
	for i := 0; i < m; i++ {
		newList[i] = c07QueryData("SpotPrice", []byte(c02Names[(i+1)%3]))
	}
	_, err := NewMsgServerImpl(k).UpdateCyclelist(ctx, &types.MsgUpdateCyclelist{Authority: k.GetAuthority(), Cyclelist: newList})
	if m > 0 {
		ndAssert(err == nil, "governance-update-accepted")
	}
	if err != nil {
		if m == 0 {
			// refusing an empty list is one way of keeping the EndBlocker safe
			ndReach("empty-list-refused")
			list, lerr := k.GetCyclelist(ctx)
			after, _ := k.CyclelistSequencer.Peek(ctx)
			ndAssert(lerr == nil && len(list) == n && after == idx, "refused-update-changes-nothing")
		}
		return
	}
	ndReach("updated")
	list, lerr := k.GetCyclelist(ctx)
	ndAssert(lerr == nil && len(list) == m, "cycle-list-replaced")
	after, _ := k.CyclelistSequencer.Peek(ctx)
	if m > 0 {
		ndAssert(after < uint64(m), "sequencer-inside-the-new-cycle-list")
	}
	// the next block's EndBlocker
	rerr := k.RotateQueries(ctx.WithBlockHeight(50))
	ndAssert(rerr == nil, "next-rotation-returns-nil")
}
