package keeper

import (
	"math/big"

	"github.com/tellor-io/layer/x/oracle/types"

	"cosmossdk.io/math"
)

// vNum: the numeric value of a hex report value (the definition used by every reference below).
func vNum(s string) math.Int {
	v, ok := new(big.Int).SetString(s, 16)
	if !ok {
		panic("verif: harness value is not hex")
	}
	return math.NewIntFromBigInt(v)
}

// vReports builds n reports with distinct symbolic reporters, symbolic hex values and powers in [1, maxPower].
func vReports(n int, maxPower uint64, prefix string) []types.MicroReport {
	reports := make([]types.MicroReport, n)
	qid := ndHash(prefix + "qid")
	for i := 0; i < n; i++ {
		reports[i] = types.MicroReport{
			Reporter:    ndString(nm(prefix+"rep", i)),
			Value:       ndHexVal(nm(prefix+"val", i)),
			Power:       ndUint64(nm(prefix+"pow", i)),
			QueryId:     qid,
			BlockNumber: ndUint64(nm(prefix+"blk", i)),
		}
		ndAssume(reports[i].Power >= 1 && reports[i].Power <= maxPower)
		for j := 0; j < i; j++ {
			ndAssume(reports[i].Reporter != reports[j].Reporter)
		}
	}
	return reports
}

func vCopyReports(in []types.MicroReport) []types.MicroReport {
	out := make([]types.MicroReport, len(in))
	copy(out, in)
	return out
}
