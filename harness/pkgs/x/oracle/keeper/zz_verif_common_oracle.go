package keeper

import (
	"context"
	"math/big"

	"github.com/tellor-io/layer/x/oracle/types"

	"cosmossdk.io/math"

	sdk "github.com/cosmos/cosmos-sdk/types"
	authtypes "github.com/cosmos/cosmos-sdk/x/auth/types"
)

// vNum: the numeric value of a hex report value (the definition used by every reference below); a LegacyDec
// because math.Int ends at 256 bits and report values do not.
func vNum(s string) math.LegacyDec {
	v, ok := new(big.Int).SetString(s, 16)
	if !ok {
		panic("verif: harness value is not hex")
	}
	return math.LegacyNewDecFromBigInt(v)
}

// vReports builds n reports with distinct symbolic reporters, symbolic hex values and powers in [1, maxPower].
func vReports(n int, maxPower uint64, prefix string) []types.MicroReport {
	reports := make([]types.MicroReport, n)
	qid := ndHash(prefix + "qid")
	for i := 0; i < n; i++ {
		reports[i] = types.MicroReport{
			Reporter:    ndString(nm(prefix+"rep", i)),
			Value:       ndHexVal(nm(prefix+"val", i)),
			Power:       ndUint64(nm(prefix+"pow", i)),
			QueryId:     qid,
			BlockNumber: ndUint64(nm(prefix+"blk", i)),
		}
		ndAssume(reports[i].Power >= 1 && reports[i].Power <= maxPower)
		for j := 0; j < i; j++ {
			ndAssume(reports[i].Reporter != reports[j].Reporter)
		}
	}
	return reports
}

func vCopyReports(in []types.MicroReport) []types.MicroReport {
	out := make([]types.MicroReport, len(in))
	copy(out, in)
	return out
}

// ---- keeper construction and stubs shared by the oracle harnesses

type vDivvyCall struct {
	addr    string
	amount  math.LegacyDec
	queryId string
	height  uint64
}

// vRepStub: the reporter keeper as the oracle module sees it; records DivvyingTips calls, ReporterStake is
// answered from stake/jailed fields set by the harness.
type vRepStub struct {
	calls    []vDivvyCall
	stake    math.Int
	stakeErr error
}

func (r *vRepStub) ReporterStake(ctx context.Context, repAddress sdk.AccAddress, queryId []byte) (math.Int, error) {
	if r.stakeErr != nil {
		return math.Int{}, r.stakeErr
	}
	return r.stake, nil
}

func (r *vRepStub) DivvyingTips(ctx context.Context, reporterAddr sdk.AccAddress, reward math.LegacyDec, queryId []byte, height uint64) error {
	r.calls = append(r.calls, vDivvyCall{string(reporterAddr), reward, string(queryId), height})
	return nil
}

type vOracleAcc struct{ types.AccountKeeper }

// vModAcc: a module account as far as the oracle module uses one (its address).
type vModAcc struct {
	sdk.ModuleAccountI
	name string
}

func (m vModAcc) GetAddress() sdk.AccAddress { return authtypes.NewModuleAddress(m.name) }
func (m vModAcc) GetName() string            { return m.name }

func (vOracleAcc) GetModuleAccount(ctx context.Context, name string) sdk.ModuleAccountI {
	return vModAcc{name: name}
}

func vOracleKeeper(rep types.ReporterKeeper, bank types.BankKeeper, reg types.RegistryKeeper) (sdk.Context, Keeper) {
	ctx, ss, cdc := ndEnv("oracle")
	k := NewKeeper(cdc, ss, vOracleAcc{}, bank, reg, rep, authtypes.NewModuleAddress("gov").String())
	return ctx, k
}

// c09Aggregates builds 1..2 aggregates whose reporters are drawn from a pool of three distinct addresses.
// Returns the aggregates, whether some reporter occurs twice with different powers, and the pool.
func c09Aggregates(maxAgg, maxRep int) ([]*types.Aggregate, bool, []string) {
	pool := []string{ndBech32("repA"), ndBech32("repB"), ndBech32("repC")}
	ndAssume(pool[0] != pool[1] && pool[0] != pool[2] && pool[1] != pool[2])
	nAgg := 1 + ndLen("nagg", maxAgg-1)
	aggs := make([]*types.Aggregate, nAgg)
	firstPower := []uint64{0, 0, 0}
	seen := []bool{false, false, false}
	differing := false
	for a := 0; a < nAgg; a++ {
		nRep := 1 + ndLen(nm("nrep", a), maxRep-1)
		reps := make([]*types.AggregateReporter, nRep)
		used := []bool{false, false, false}
		for r := 0; r < nRep; r++ {
			who := ndPick(nm("who", a*4+r), 3)
			if used[who] {
				ndAssume(false) // a reporter appears at most once per aggregate
			}
			used[who] = true
			p := ndUint64(nm("pow", a*4+r))
			ndAssume(p >= 1 && p <= 1000000000)
			if seen[who] {
				differing = ndOr(differing, firstPower[who] != p)
			} else {
				seen[who] = true
				firstPower[who] = p
			}
			reps[r] = &types.AggregateReporter{Reporter: pool[who], Power: p, BlockNumber: uint64(10 + a)}
		}
		aggs[a] = &types.Aggregate{QueryId: ndHash(nm("qid", a)), Reporters: reps}
	}
	return aggs, differing, pool
}
