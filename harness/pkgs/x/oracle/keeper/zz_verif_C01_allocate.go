package keeper

import (
	"github.com/tellor-io/layer/x/oracle/types"

	"cosmossdk.io/math"
)

// VerifC01_allocate_deterministic: AllocateRewards executed twice on the same aggregates, each execution with an
// independent arbitrary hash-map iteration order: the same reporters are credited the same amounts in the same
// order and the same coins move. [map-order]
func VerifC01_allocate_deterministic() {
	rep1, rep2 := &vRepStub{}, &vRepStub{}
	bank1, bank2 := newVBank(false), newVBank(false)
	ctx1, k1 := vOracleKeeper(rep1, bank1, nil)
	ctx2, k2 := vOracleKeeper(rep2, bank2, nil)
	// one aggregate with 2 (thorough: 3) distinct reporters, plus optionally a second aggregate repeating the first
	n := 2 + ndTier()
	reps := make([]*types.AggregateReporter, n)
	for i := 0; i < n; i++ {
		p := ndUint64(nm("pow", i))
		ndAssume(p >= 1 && p <= 1000000000)
		reps[i] = &types.AggregateReporter{Reporter: ndBech32(nm("rep", i)), Power: p, BlockNumber: 10}
		for j := 0; j < i; j++ {
			ndAssume(reps[i].Reporter != reps[j].Reporter)
		}
	}
	aggs := []*types.Aggregate{{QueryId: ndHash("qid0"), Reporters: reps}}
	if ndBool("second") {
		aggs = append(aggs, &types.Aggregate{QueryId: ndHash("qid1"), Reporters: reps[:1]})
	}
	reward := ndBigInt("reward")
	ndAssume(reward.IsPositive() && reward.LTE(math.NewInt(1000000000000000)))
	bank1.set(vbMod("oracle"), reward)
	bank2.set(vbMod("oracle"), reward)
	e1 := k1.AllocateRewards(ctx1, aggs, reward, "oracle")
	e2 := k2.AllocateRewards(ctx2, aggs, reward, "oracle")
	ndAssert((e1 == nil) == (e2 == nil), "same-outcome")
	ndAssert(len(rep1.calls) == len(rep2.calls), "same-number-of-credits")
	if len(rep1.calls) != len(rep2.calls) {
		return
	}
	same := true
	for i := range rep1.calls {
		a, b := rep1.calls[i], rep2.calls[i]
		same = ndAnd(same, ndAnd(a.addr == b.addr, ndAnd(a.amount.Equal(b.amount), ndAnd(a.queryId == b.queryId, a.height == b.height))))
	}
	ndAssert(same, "same-credits-in-the-same-order-in-both-executions")
	ndAssert(bank1.modBal("tips_escrow_pool").Equal(bank2.modBal("tips_escrow_pool")), "same-coins-moved")
	ndReach("ran")
}
