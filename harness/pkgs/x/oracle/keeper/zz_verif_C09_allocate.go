package keeper

import (
	"github.com/tellor-io/layer/x/oracle/types"

	"cosmossdk.io/math"
)

func c09Bounds() (int, int) {
	if ndTier() > 0 {
		return 2, 3
	}
	return 2, 2
}

// VerifC09_allocate: AllocateRewards hands out exactly the reward, in non-negative parts, and moves exactly the
// reward from the paying pool into the tips escrow pool.
func VerifC09_allocate() {
	rep := &vRepStub{}
	bank := newVBank(false)
	ctx, k := vOracleKeeper(rep, bank, nil)
	ma, mr := c09Bounds()
	aggs, differing, _ := c09Aggregates(ma, mr)
	reward := ndBigInt("reward")
	ndAssume(reward.IsPositive() && reward.LTE(math.NewInt(1000000000000000)))
	bank.set(vbMod("oracle"), reward)
	err := k.AllocateRewards(ctx, aggs, reward, "oracle")
	ndAssert(err == nil, "no-error")
	if err != nil {
		return
	}
	ndReach("allocated")
	sum := math.LegacyZeroDec()
	nonNeg := true
	for _, c := range rep.calls {
		sum = sum.Add(c.amount)
		nonNeg = ndAnd(nonNeg, !c.amount.IsNegative())
	}
	ndAssert(sum.Equal(math.LegacyNewDecFromInt(reward)), "credits-sum-to-the-reward-exactly")
	_ = nonNeg // non-negativity needs the exact quotients: VerifC09_allocate_nonneg
	ndAssert(bank.modBal("tips_escrow_pool").Equal(reward) && bank.modBal("oracle").IsZero(), "exactly-the-reward-moves-into-tips-escrow")
	ndAssert(bank.minted.IsZero() && bank.burned.IsZero(), "supply-unchanged")
	// one credit per distinct reporter
	distinct := true
	for i := range rep.calls {
		for j := 0; j < i; j++ {
			distinct = ndAnd(distinct, rep.calls[i].addr != rep.calls[j].addr)
		}
	}
	ndAssert(distinct, "one-credit-per-reporter")
	if differing {
		ndReach("reporter-twice-with-different-powers")
	}
}

// VerifC09_allocate_nonneg: with exact arithmetic, every credit is non-negative. Three shapes of payout:
// one aggregate {A,B}; two aggregates {A},{B}; two aggregates {A,B},{A} (A paid for two aggregates).
func VerifC09_allocate_nonneg() {
	rep := &vRepStub{}
	bank := newVBank(false)
	ctx, k := vOracleKeeper(rep, bank, nil)
	a, b := ndBech32("repA"), ndBech32("repB")
	ndAssume(a != b)
	pa, pb, pa2 := ndUint64("powA"), ndUint64("powB"), ndUint64("powA2")
	ndAssume(pa >= 1 && pa <= 1000000000 && pb >= 1 && pb <= 1000000000 && pa2 >= 1 && pa2 <= 1000000000)
	q1, q2 := ndHash("qid1"), ndHash("qid2")
	ra := &types.AggregateReporter{Reporter: a, Power: pa, BlockNumber: 10}
	rb := &types.AggregateReporter{Reporter: b, Power: pb, BlockNumber: 10}
	ra2 := &types.AggregateReporter{Reporter: a, Power: pa2, BlockNumber: 11}
	var aggs []*types.Aggregate
	differing := false
	switch ndPick("shape", 3) {
	case 0:
		aggs = []*types.Aggregate{{QueryId: q1, Reporters: []*types.AggregateReporter{ra, rb}}}
	case 1:
		aggs = []*types.Aggregate{{QueryId: q1, Reporters: []*types.AggregateReporter{ra}}, {QueryId: q2, Reporters: []*types.AggregateReporter{rb}}}
	default:
		aggs = []*types.Aggregate{{QueryId: q1, Reporters: []*types.AggregateReporter{ra, rb}}, {QueryId: q2, Reporters: []*types.AggregateReporter{ra2}}}
		differing = pa != pa2
	}
	reward := ndBigInt("reward")
	ndAssume(reward.IsPositive() && reward.LTE(math.NewInt(1000000000000000)))
	bank.set(vbMod("oracle"), reward)
	err := k.AllocateRewards(ctx, aggs, reward, "oracle")
	ndAssert(err == nil, "no-error")
	if err != nil {
		return
	}
	ndReach("allocated")
	nonNeg := true
	for _, c := range rep.calls {
		nonNeg = ndAnd(nonNeg, !c.amount.IsNegative())
	}
	// known finding C09-F3: a reporter present in two aggregates with different powers is weighted by
	// (first power x count); the remainder handed to the last reporter can then be negative
	ndAssertK(nonNeg, "every-credit-non-negative", "C09-F3", differing)
}

// VerifC09_reward_formula: CalculateRewardAmount is the reporter's proportional part, to within the two
// roundings at 10^-18 (the first scaled by the reward).
func VerifC09_reward_formula() {
	p := ndUint64("power")
	c := ndUint64("count")
	t := ndUint64("total")
	reward := ndBigInt("reward")
	ndAssume(p >= 1 && p <= 1000000000 && c >= 1 && c <= 3 && t >= 1 && t <= 4000000000)
	ndAssume(p*c <= t)
	ndAssume(reward.IsPositive() && reward.LTE(math.NewInt(1000000000000000)))
	got := CalculateRewardAmount(p, c, t, reward)
	ndReach("computed")
	ndAssert(!got.IsNegative(), "part-non-negative")
	ndAssert(got.LTE(math.LegacyNewDecFromInt(reward).Add(math.LegacyNewDecFromInt(reward).QuoInt64(1000000000000000000)).Add(math.LegacyNewDecWithPrec(1, 18))), "part-at-most-the-reward-plus-rounding")
	// |got * t - reward * p * c| <= t * (reward * ulp + ulp)   (all in units of 10^-18)
	lhs := got.MulInt64(int64(t)).Sub(math.LegacyNewDecFromInt(reward.MulRaw(int64(p * c)))).Abs()
	tol := math.LegacyNewDecWithPrec(1, 18).MulInt(reward.AddRaw(1)).MulInt64(int64(t))
	ndAssert(lhs.LTE(tol), "part-proportional-to-power-times-count")
}
