package keeper

import (
	"github.com/tellor-io/layer/x/oracle/types"
	regtypes "github.com/tellor-io/layer/x/registry/types"
)

// VerifC02_value_median: a value that passes the data spec's validation at submission (uint256 spec) is parsed
// without error by the weighted-median aggregation that runs in EndBlocker.
func VerifC02_value_median() {
	ctx, _, _ := ndEnv("oracle")
	l := []int{64, 66}[ndPick("len", 2)]
	v := ndStr("v", l)
	spec := regtypes.DataSpec{ResponseValueType: "uint256", AggregationMethod: "weighted-median"}
	if spec.ValidateValue(v) != nil {
		ndReach("rejected-at-submission")
		return
	}
	ndReach("accepted-at-submission")
	var k Keeper
	_, err := k.WeightedMedian(ctx, []types.MicroReport{{Reporter: ndString("rep"), Value: v, Power: 1, QueryId: ndHash("qid"), BlockNumber: 5}}, 1)
	ndAssert(err == nil, "accepted-value-is-aggregated-without-error")
}
