package keeper

import (
	"github.com/tellor-io/layer/x/oracle/types"

	"cosmossdk.io/math"
)

// VerifC19_oracle_gov: UpdateParams and UpdateCyclelist are rejected unless sent by the governance authority, and a
// rejected request changes nothing.
func VerifC19_oracle_gov() {
	ctx, k := vOracleKeeper(&vRepStub{}, newVBank(false), c07Registry{window: 10})
	if err := k.Params.Set(ctx, types.Params{MinStakeAmount: math.NewInt(1000000)}); err != nil {
		panic(err)
	}
	qd := c07QueryData("SpotPrice", []byte("qA"))
	if err := k.InitCycleListQuery(ctx, [][]byte{qd}); err != nil {
		panic(err)
	}
	signer := ndString("signer")
	asAuthority := ndBool("asAuthority")
	if asAuthority {
		signer = k.GetAuthority()
	} else {
		ndAssume(signer != k.GetAuthority())
	}
	ms := NewMsgServerImpl(k)
	which := ndPick("handler", 2)
	var err error
	if which == 0 {
		_, err = ms.UpdateParams(ctx, &types.MsgUpdateParams{Authority: signer, Params: types.Params{MinStakeAmount: math.NewInt(5)}})
	} else {
		_, err = ms.UpdateCyclelist(ctx, &types.MsgUpdateCyclelist{Authority: signer, Cyclelist: [][]byte{c07QueryData("SpotPrice", []byte("qB"))}})
	}
	if err == nil {
		ndReach("accepted")
		ndAssert(asAuthority, "only-the-governance-authority")
	}
	if !asAuthority {
		ndReach("non-authority")
		p, _ := k.Params.Get(ctx)
		list, _ := k.GetCyclelist(ctx)
		ndAssert(err != nil && p.MinStakeAmount.Equal(math.NewInt(1000000)) && len(list) == 1 && vBytesEqO(list[0], qd), "non-authority-is-rejected-and-changes-nothing")
	}
}

func vBytesEqO(a, b []byte) bool {
	if len(a) != len(b) {
		return false
	}
	eq := true
	for i := range a {
		eq = ndAnd(eq, a[i] == b[i])
	}
	return eq
}
