package keeper

import (
	"time"

	"github.com/tellor-io/layer/utils"
	"github.com/tellor-io/layer/x/oracle/types"

	"cosmossdk.io/collections"
	"cosmossdk.io/math"

	sdk "github.com/cosmos/cosmos-sdk/types"
)

// VerifC07_aggregate_step: SetAggregatedReport (oracle EndBlocker) over one or two rounds in any state satisfying
// "HasRevealedReports <=> the round has at least one report":
//   - a round with reports whose window has closed (expiration <= height) produces exactly one aggregate, stored
//     under (query id, block time), with the next sequence number, carrying every report of the round, and the round
//     disappears; its tip is handed out in full
//   - a round whose window is still open, and a round without reports (even if expired), stay exactly as they are:
//     no aggregate, the tip stays with the query
func VerifC07_aggregate_step() {
	rep := &vRepStub{}
	bank := newVBank(false)
	ctx, k := vOracleKeeper(rep, bank, c07Registry{window: 10})
	h := ndInt64("height")
	ndAssume(h >= 1)
	ndAssume(h < 1<<40)
	nowMs := ndInt64("nowMs")
	ndAssume(nowMs >= 1)
	ndAssume(nowMs < 1<<50)
	bctx := ctx.WithBlockHeight(h).WithBlockTime(time.UnixMilli(nowMs).UTC())
	// each round has its own reporters (so that credits can be attributed to a round)
	pool := []string{ndBech32("repA"), ndBech32("repB"), ndBech32("repC"), ndBech32("repD")}
	for i := range pool {
		for j := 0; j < i; j++ {
			ndAssume(pool[i] != pool[j])
		}
	}
	nq := 1 + ndLen("extraRounds", 1)
	type round struct {
		qid      []byte
		id       uint64
		exp      uint64
		tip      math.Int
		nrep     int
		cyc      bool
		nonce0   uint64
		hadNonce bool
		mode     bool
	}
	rounds := make([]round, nq)
	tips := math.ZeroInt()
	for qi := 0; qi < nq; qi++ {
		qd := c07QueryData("SpotPrice", []byte(c02Names[qi]))
		r := round{qid: utils.QueryIDFromData(qd), id: uint64(5 + qi), exp: ndUint64(nm("expiration", qi)), tip: ndBigInt(nm("tip", qi)),
			nrep: ndLen(nm("nreports", qi), 2), cyc: ndBool(nm("cyclelist", qi)), hadNonce: ndBool(nm("hasHistory", qi)), nonce0: ndUint64(nm("nonce", qi))}
		// a round may belong to a weighted-mode query (values need not be numbers); quick: at most one of the rounds
		r.mode = ndBool(nm("weightedMode", qi))
		if qi == 1 && ndTier() == 0 {
			ndAssume(!(r.mode && rounds[0].mode))
		}
		if qi == 1 && ndTier() == 0 {
			// quick: the second round has at most one report, is not a cycle-list round and has a history
			ndAssume(r.nrep <= 1)
			ndAssume(!r.cyc)
			ndAssume(r.hadNonce)
		}
		ndAssume(r.exp < 1<<40)
		ndAssume(!r.tip.IsNegative())
		ndAssume(r.tip.LT(math.NewInt(1000000)))
		ndAssume(r.nonce0 < 1<<40)
		if r.hadNonce {
			must(k.Nonces.Set(ctx, r.qid, r.nonce0))
		} else {
			r.nonce0 = 0
		}
		must(k.Query.Set(ctx, collections.Join(r.qid, r.id), types.QueryMeta{Id: r.id, Amount: r.tip, Expiration: r.exp, RegistrySpecBlockWindow: 10,
			QueryData: qd, QueryType: "SpotPrice", CycleList: r.cyc, HasRevealedReports: r.nrep > 0}))
		for ri := 0; ri < r.nrep; ri++ {
			who := pool[2*qi+ri]
			addr, err := sdk.AccAddressFromBech32(who)
			must(err)
			must(k.Reports.Set(ctx, collections.Join3(r.qid, addr.Bytes(), r.id), types.MicroReport{Reporter: who, Power: uint64(10 * (ri + 1)), QueryType: "SpotPrice",
				QueryId: r.qid, AggregateMethod: c07Method(r.mode), Value: c07RoundValue(r.mode, qi, ri), Timestamp: time.UnixMilli(1).UTC(), Cyclelist: r.cyc, BlockNumber: uint64(1 + ri)}))
		}
		tips = tips.Add(r.tip)
		rounds[qi] = r
	}
	bank.set(vbMod("oracle"), tips)
	tbr := ndBigInt("timeBasedRewards")
	ndAssume(!tbr.IsNegative())
	ndAssume(tbr.LT(math.NewInt(1000000)))
	bank.set(vbMod("time_based_rewards"), tbr)

	err := k.SetAggregatedReport(bctx)
	ndAssert(err == nil, "aggregation-step-does-not-fail")
	if err != nil {
		return
	}
	ndReach("stepped")
	paidTips, anyCyc := math.ZeroInt(), false
	for qi := 0; qi < nq; qi++ {
		r := rounds[qi]
		due := r.nrep > 0 && r.exp <= uint64(h)
		agg, aerr := k.Aggregates.Get(ctx, collections.Join(r.qid, uint64(nowMs)))
		meta, merr := k.Query.Get(ctx, collections.Join(r.qid, r.id))
		nonce, nerr := k.Nonces.Get(ctx, r.qid)
		if due {
			ndReach("round-aggregated")
			ndAssert(aerr == nil, "a-closed-round-with-reports-produces-an-aggregate")
			ndAssert(merr != nil, "the-aggregated-round-disappears")
			ndAssert(nerr == nil && nonce == r.nonce0+1, "sequence-number-increases-by-one")
			if aerr == nil {
				ndAssert(agg.MetaId == r.id && agg.Index == r.nonce0+1 && agg.Height == uint64(h), "aggregate-belongs-to-the-round-and-block")
				ndAssert(len(agg.Reporters) == r.nrep && agg.ReporterPower == uint64(10*r.nrep*(r.nrep+1)/2), "aggregate-carries-every-report-of-the-round")
				ndAssert(string(agg.QueryId) == string(r.qid) && !agg.Flagged, "aggregate-is-for-the-round's-query")
				if r.mode {
					ndAssert(agg.AggregateValue == "not a number", "a-weighted-mode-round-is-aggregated-by-mode")
				}
			}
			paidTips = paidTips.Add(r.tip)
			anyCyc = anyCyc || r.cyc
		} else {
			ndReach("round-kept")
			ndAssert(aerr != nil, "no-aggregate-for-an-open-or-empty-round")
			ndAssert(merr == nil && meta.Amount.Equal(r.tip) && meta.Expiration == r.exp && meta.HasRevealedReports == (r.nrep > 0), "open-or-empty-round-is-untouched")
			ndAssert((nerr != nil && !r.hadNonce) || (nerr == nil && nonce == r.nonce0), "sequence-number-unchanged")
		}
		// the round's reports are never deleted by the step (history)
	}
	// money: exactly the tips of the aggregated rounds (and the time-based rewards when a cycle-list round was
	// aggregated) move into tips escrow, and are credited in full
	expect := paidTips
	if anyCyc {
		expect = expect.Add(tbr)
	}
	ndAssert(bank.modBal("tips_escrow_pool").Equal(expect), "exactly-the-due-tips-and-rewards-move-to-tips-escrow")
	ndAssert(bank.modBal("oracle").Equal(tips.Sub(paidTips)), "tips-of-kept-rounds-stay-in-the-oracle-account")
	sum := math.LegacyZeroDec()
	for _, c := range rep.calls {
		sum = sum.Add(c.amount)
	}
	ndAssert(sum.Equal(math.LegacyNewDecFromInt(expect)), "credits-sum-to-what-was-moved")
	// time-based rewards go only to cycle-list rounds: the reporters of an aggregated round that is not in the cycle
	// list are credited exactly that round's tip
	for qi := 0; qi < nq; qi++ {
		r := rounds[qi]
		if !(r.nrep > 0 && r.exp <= uint64(h)) || r.cyc {
			continue
		}
		got := math.LegacyZeroDec()
		for _, c := range rep.calls {
			for ri := 0; ri < r.nrep; ri++ {
				a, _ := sdk.AccAddressFromBech32(pool[2*qi+ri])
				if c.addr == string(a) {
					got = got.Add(c.amount)
				}
			}
		}
		ndAssert(got.Equal(math.LegacyNewDecFromInt(r.tip)), "a-round-outside-the-cycle-list-earns-its-tip-and-no-time-based-reward")
	}
}

func must(err error) {
	if err != nil {
		panic(err)
	}
}


func c07Method(mode bool) string {
	if mode {
		return "weighted-mode"
	}
	return "weighted-median"
}

// c07RoundValue: median rounds carry symbolic hex numbers; mode rounds carry a value that is not a number
func c07RoundValue(mode bool, qi, ri int) string {
	if mode {
		return "not a number"
	}
	return ndHexVal(nm(nm("value", qi), ri))
}
