package keeper

import (
	"time"

	"github.com/tellor-io/layer/x/oracle/types"

	"cosmossdk.io/collections"

	sdk "github.com/cosmos/cosmos-sdk/types"
)

func c08N() int {
	if ndTier() > 0 {
		return 4
	}
	return 3
}

const c08MaxMs = 4000000000000 // ~ year 2096 in milliseconds

type c08Store struct {
	q, other []byte
	n        int
	ts       []uint64
	flagged  []bool
	reporter []string
}

// c08Populate stores 0..n aggregates of query q (distinct timestamps >= 1, arbitrary flags/reporters, arbitrary
// insertion order relative to time) and one aggregate of another query.
func c08Populate(ctx sdk.Context, k Keeper) c08Store {
	s := c08Store{q: ndHash("q"), other: ndHash("other")}
	ndAssume(string(s.q) != string(s.other))
	s.n = ndLen("n", c08N())
	s.ts = make([]uint64, s.n)
	s.flagged = make([]bool, s.n)
	s.reporter = make([]string, s.n)
	for i := 0; i < s.n; i++ {
		s.ts[i] = ndUint64(nm("ts", i))
		s.flagged[i] = ndBool(nm("flagged", i))
		s.reporter[i] = ndBech32(nm("reporter", i))
		ndAssume(s.ts[i] >= 1 && s.ts[i] < c08MaxMs)
		for j := 0; j < i; j++ {
			ndAssume(s.ts[i] != s.ts[j])
		}
		agg := types.Aggregate{QueryId: s.q, Flagged: s.flagged[i], AggregateReporter: s.reporter[i], MetaId: uint64(100 + i), Height: uint64(7 + i), MicroHeight: uint64(3 + i)}
		if err := k.Aggregates.Set(ctx, collections.Join(s.q, s.ts[i]), agg); err != nil {
			panic(err)
		}
	}
	// the per-query sequence number counts the stored aggregates (what SetAggregate maintains, C08.b)
	if s.n > 0 {
		if err := k.Nonces.Set(ctx, s.q, uint64(s.n)); err != nil {
			panic(err)
		}
	}
	if err := k.Nonces.Set(ctx, s.other, 1); err != nil {
		panic(err)
	}
	to := ndUint64("tsOther")
	ndAssume(to >= 1 && to < c08MaxMs)
	if err := k.Aggregates.Set(ctx, collections.Join(s.other, to), types.Aggregate{QueryId: s.other, MetaId: 999, AggregateReporter: ndBech32("reporterOther")}); err != nil {
		panic(err)
	}
	return s
}

// VerifC08_lookups_before_after: 'before T', 'timestamp before/after T', 'before T by reporter' against the list.
func VerifC08_lookups_before_after() {
	ctx, k := vOracleKeeper(nil, nil, nil)
	s := c08Populate(ctx, k)
	T := ndUint64("T")
	ndAssume(T < c08MaxMs)
	probe := time.UnixMilli(int64(T))
	// reference: scan of the list (branch-free)
	var best, bestUnflagged, next uint64
	var bestMeta uint64
	for i := 0; i < s.n; i++ {
		lt := s.ts[i] < T
		best = ndIteU64(ndAnd(lt, s.ts[i] > best), s.ts[i], best)
		upd := ndAnd(ndAnd(lt, !s.flagged[i]), s.ts[i] > bestUnflagged)
		bestUnflagged = ndIteU64(upd, s.ts[i], bestUnflagged)
		bestMeta = ndIteU64(upd, uint64(100+i), bestMeta)
		next = ndIteU64(ndAnd(s.ts[i] > T, ndOr(next == 0, s.ts[i] < next)), s.ts[i], next)
	}
	agg, at, err := k.GetAggregateBefore(ctx, s.q, probe)
	if bestUnflagged == 0 {
		ndAssert(err != nil, "data-before-none-is-an-error")
	} else {
		ndAssert(err == nil, "data-before-found")
		if err == nil {
			ndAssert(uint64(at.UnixMilli()) == bestUnflagged, "data-before-is-the-latest-unflagged-strictly-before-T")
			ndAssert(agg.MetaId == bestMeta && !agg.Flagged && string(agg.QueryId) == string(s.q), "data-before-returns-that-aggregate")
		}
	}
	tb, err := k.GetTimestampBefore(ctx, s.q, probe)
	if best == 0 {
		ndAssert(err != nil, "timestamp-before-none-is-an-error")
	} else {
		ndAssert(err == nil && uint64(tb.UnixMilli()) == best, "timestamp-before-is-the-predecessor-flagged-or-not")
	}
	ta, err := k.GetTimestampAfter(ctx, s.q, probe)
	if next == 0 {
		ndAssert(err != nil, "timestamp-after-none-is-an-error")
	} else {
		ndAssert(err == nil && uint64(ta.UnixMilli()) == next, "timestamp-after-is-the-successor")
	}
	ndReach("probed")
}

// VerifC08_lookups_current_index: 'current', 'by index', 'by timestamp'.
func VerifC08_lookups_current_index() {
	ctx, k := vOracleKeeper(nil, nil, nil)
	s := c08Populate(ctx, k)
	// current = greatest timestamp
	var last, lastMeta uint64
	for i := 0; i < s.n; i++ {
		upd := s.ts[i] > last
		last = ndIteU64(upd, s.ts[i], last)
		lastMeta = ndIteU64(upd, uint64(100+i), lastMeta)
	}
	cur, ct, err := k.GetCurrentAggregateReport(ctx, s.q)
	if s.n == 0 {
		ndAssert(err != nil, "current-none-is-an-error")
	} else {
		ndAssert(err == nil, "current-found")
		if err == nil {
			ndAssert(uint64(ct.UnixMilli()) == last && cur.MetaId == lastMeta, "current-is-the-latest-aggregate-of-the-query")
		}
	}
	// by index: the idx-th aggregate in chronological order (0-based), out of range is an error
	idx := uint64(ndLen("idx", c08N()))
	ia, it, err := k.GetAggregateByIndex(ctx, s.q, idx)
	if idx >= uint64(s.n) {
		ndAssert(err != nil, "index-out-of-range-is-an-error")
	} else {
		ndAssert(err == nil, "index-in-range-found")
		if err == nil {
			// rank of the returned timestamp among the query's timestamps equals idx
			rank := 0
			member := false
			got := uint64(it.UnixMilli())
			for i := 0; i < s.n; i++ {
				rank += ndB2I(s.ts[i] < got)
				member = ndOr(member, ndAnd(s.ts[i] == got, ia.MetaId == uint64(100+i)))
			}
			ndAssert(member, "by-index-returns-a-stored-aggregate-of-the-query")
			ndAssert(uint64(rank) == idx, "by-index-is-the-idx-th-in-time-order")
		}
	}
	// by timestamp: exact key
	T := ndUint64("T")
	ndAssume(T >= 1 && T < c08MaxMs)
	hit := false
	var hitMeta uint64
	for i := 0; i < s.n; i++ {
		hit = ndOr(hit, s.ts[i] == T)
		hitMeta = ndIteU64(s.ts[i] == T, uint64(100+i), hitMeta)
	}
	bt, err := k.GetAggregateByTimestamp(ctx, s.q, time.UnixMilli(int64(T)))
	if hit {
		ndAssert(err == nil && bt.MetaId == hitMeta, "by-timestamp-returns-the-aggregate-stored-at-T")
	} else {
		ndAssert(err != nil, "by-timestamp-miss-is-an-error")
	}
	ndReach("probed")
}

// VerifC08_set_aggregate: SetAggregate appends: index = previous nonce + 1, key = (queryId, block time in ms),
// height = block height, and no other stored aggregate changes.
func VerifC08_set_aggregate() {
	ctx, k := vOracleKeeper(nil, nil, nil)
	s := c08Populate(ctx, k)
	hasNonce := ndBool("hasNonce")
	nonce := ndUint64("nonce")
	ndAssume(nonce < 1<<62)
	if hasNonce {
		if err := k.Nonces.Set(ctx, s.q, nonce); err != nil {
			panic(err)
		}
	} else {
		nonce = 0
		if err := k.Nonces.Remove(ctx, s.q); err != nil {
			panic(err)
		}
	}
	nowMs := ndUint64("nowMs")
	ndAssume(nowMs >= 1 && nowMs < c08MaxMs)
	// block time strictly after every stored aggregate of the query (block time strictly increases)
	for i := 0; i < s.n; i++ {
		ndAssume(s.ts[i] < nowMs)
	}
	h := ndInt64("height")
	ndAssume(h >= 1)
	bctx := ctx.WithBlockTime(time.UnixMilli(int64(nowMs))).WithBlockHeight(h)
	rep := &types.Aggregate{QueryId: s.q, AggregateValue: "aa", MetaId: 555}
	err := k.SetAggregate(bctx, rep)
	ndAssert(err == nil, "no-error")
	if err != nil {
		return
	}
	ndReach("stored")
	got, gerr := k.Aggregates.Get(ctx, collections.Join(s.q, nowMs))
	ndAssert(gerr == nil && got.MetaId == 555, "stored-under-query-and-block-time-ms")
	ndAssert(got.Index == nonce+1 && rep.Index == nonce+1, "sequence-number-is-previous-plus-one")
	n2, nerr := k.Nonces.Get(ctx, s.q)
	ndAssert(nerr == nil && n2 == nonce+1, "nonce-advanced-by-one")
	ndAssert(got.Height == uint64(h), "height-is-block-height")
	unchanged := true
	for i := 0; i < s.n; i++ {
		a, e := k.Aggregates.Get(ctx, collections.Join(s.q, s.ts[i]))
		unchanged = ndAnd(unchanged, ndAnd(e == nil, ndAnd(a.MetaId == uint64(100+i), a.Flagged == s.flagged[i])))
	}
	ndAssert(unchanged, "earlier-aggregates-untouched")
	cur, ct, cerr := k.GetCurrentAggregateReport(ctx, s.q)
	ndAssert(cerr == nil && cur.MetaId == 555 && uint64(ct.UnixMilli()) == nowMs, "new-aggregate-is-current")
}

// VerifC08_flag: FlagAggregateReport changes nothing but the Flagged bit, and only on an aggregate of the
// disputed report's query whose determining report (Reporters[AggregateReportIndex]) is that report.
func VerifC08_flag() {
	ctx, k := vOracleKeeper(nil, nil, nil)
	n := 1 + ndLen("n", 2)
	qs := [][]byte{ndHash("q0"), ndHash("q1")}
	ndAssume(string(qs[0]) != string(qs[1]))
	reps := []string{ndBech32("r0"), ndBech32("r1")}
	ndAssume(reps[0] != reps[1])
	type rec struct {
		q       int
		ts, mh  uint64
		who     int
		flagged bool
	}
	recs := make([]rec, n)
	for i := 0; i < n; i++ {
		r := rec{q: ndPick(nm("q", i), 2), ts: ndUint64(nm("ts", i)), mh: ndUint64(nm("mh", i)), who: ndPick(nm("who", i), 2), flagged: ndBool(nm("fl", i))}
		ndAssume(r.ts >= 1 && r.ts < c08MaxMs && r.mh >= 1 && r.mh <= 3)
		for j := 0; j < i; j++ {
			ndAssume(!(recs[j].q == r.q && recs[j].ts == r.ts))
			// at most one aggregate per query is determined by reports of one block
			ndAssume(!(recs[j].q == r.q && recs[j].mh == r.mh))
		}
		recs[i] = r
		// two reporters listed; the determining one is at AggregateReportIndex
		list := []*types.AggregateReporter{{Reporter: reps[1-r.who], Power: 1, BlockNumber: r.mh}, {Reporter: reps[r.who], Power: 2, BlockNumber: r.mh}}
		agg := types.Aggregate{QueryId: qs[r.q], Flagged: r.flagged, AggregateReporter: reps[r.who], AggregateReportIndex: 1, Reporters: list, MicroHeight: r.mh, MetaId: uint64(100 + i), AggregateValue: "aa", ReporterPower: 3}
		if err := k.Aggregates.Set(ctx, collections.Join(qs[r.q], r.ts), agg); err != nil {
			panic(err)
		}
	}
	dq := ndPick("dq", 2)
	dwho := ndPick("dwho", 2)
	dmh := ndUint64("dmh")
	ndAssume(dmh >= 1 && dmh <= 3)
	err := k.FlagAggregateReport(ctx, types.MicroReport{QueryId: qs[dq], Reporter: reps[dwho], BlockNumber: dmh})
	ndAssert(err == nil, "no-error")
	if err != nil {
		return
	}
	ndReach("ran")
	okAll := true
	for i := 0; i < n; i++ {
		r := recs[i]
		a, e := k.Aggregates.Get(ctx, collections.Join(qs[r.q], r.ts))
		target := r.q == dq && r.mh == dmh && r.who == dwho
		wantFlag := ndOr(r.flagged, target)
		same := ndAnd(e == nil, ndAnd(a.MetaId == uint64(100+i), ndAnd(a.AggregateReporter == reps[r.who], ndAnd(a.MicroHeight == r.mh, ndAnd(a.ReporterPower == 3, ndAnd(len(a.Reporters) == 2, a.AggregateValue == "aa"))))))
		okAll = ndAnd(okAll, ndAnd(same, a.Flagged == wantFlag))
	}
	ndAssert(okAll, "only-the-flag-of-the-aggregate-determined-by-the-disputed-report-changes")
}
