package keeper

import (
	"github.com/tellor-io/layer/x/oracle/types"

	"cosmossdk.io/math"
)

func c06N() int {
	if ndTier() > 0 {
		return 3
	}
	return 2
}

// c06CheckCommon: bookkeeping clauses shared by median and mode.
func c06CheckCommon(orig []types.MicroReport, agg *types.Aggregate) {
	n := len(orig)
	total := math.ZeroInt()
	for i := 0; i < n; i++ {
		total = total.Add(math.NewIntFromUint64(orig[i].Power))
	}
	ndAssert(math.NewIntFromUint64(agg.ReporterPower).Equal(total), "reporter-power-is-sum-of-all-powers")
	ndAssert(len(agg.Reporters) == n, "lists-as-many-reporters-as-reports")
	if len(agg.Reporters) != n {
		return
	}
	// every input report appears exactly once (reporter, power, block) in Reporters
	allOnce := true
	for i := 0; i < n; i++ {
		cnt := 0
		for j := 0; j < n; j++ {
			r := agg.Reporters[j]
			cnt += ndB2I(ndAnd(r.Reporter == orig[i].Reporter, ndAnd(r.Power == orig[i].Power, r.BlockNumber == orig[i].BlockNumber)))
		}
		allOnce = ndAnd(allOnce, cnt == 1)
	}
	ndAssert(allOnce, "every-report-listed-exactly-once")
	// the named reporter reported the chosen value
	member := false
	for i := 0; i < n; i++ {
		member = ndOr(member, ndAnd(orig[i].Reporter == agg.AggregateReporter, orig[i].Value == agg.AggregateValue))
	}
	ndAssert(member, "aggregate-reporter-reported-the-chosen-value")
	ndAssert(agg.AggregateReportIndex < uint64(n), "report-index-in-range")
	if agg.AggregateReportIndex < uint64(n) {
		ndAssert(agg.Reporters[agg.AggregateReportIndex].Reporter == agg.AggregateReporter, "report-index-points-at-aggregate-reporter")
	}
}

// VerifC06_median: WeightedMedian returns a reported value c with
// power{v < c} <= total/2 and power{v <= c} >= total/2 (compared as 2*sum vs total, no division).
func VerifC06_median() {
	ctx, _, _ := ndEnv("oracle")
	n := 1 + ndLen("n", c06N())
	reports := vReports(n, 1<<61, "")
	c06TotalBelow2p63(reports)
	orig := vCopyReports(reports)
	var k Keeper
	agg, err := k.WeightedMedian(ctx, reports, 7)
	ndAssert(err == nil, "no-error-on-valid-values")
	if err != nil {
		return
	}
	ndReach("aggregated")
	c06CheckCommon(orig, agg)
	c := vNum(agg.AggregateValue)
	below, atOrBelow, total := math.ZeroInt(), math.ZeroInt(), math.ZeroInt()
	zero := math.ZeroInt()
	for i := 0; i < n; i++ {
		p := math.NewIntFromUint64(orig[i].Power)
		v := vNum(orig[i].Value)
		below = below.Add(ndIteBig(v.LT(c), p, zero))
		atOrBelow = atOrBelow.Add(ndIteBig(v.LTE(c), p, zero))
		total = total.Add(p)
	}
	ndAssert(below.MulRaw(2).LTE(total), "power-strictly-below-is-at-most-half")
	ndAssert(atOrBelow.MulRaw(2).GTE(total), "power-at-or-below-is-at-least-half")
	ndAssert(agg.MetaId == 7, "meta-id-recorded")
}

// VerifC06_median_order: the numeric value of the median does not depend on arrival order.
func VerifC06_median_order() {
	ctx, _, _ := ndEnv("oracle")
	n := 2 + ndLen("n", c06N()-1)
	reports := vReports(n, 1<<61, "")
	c06TotalBelow2p63(reports)
	// second run on a rotated / swapped copy
	perm := vCopyReports(reports)
	switch ndPick("perm", 3) {
	case 0: // rotate left
		first := perm[0]
		copy(perm, perm[1:])
		perm[n-1] = first
	case 1: // swap ends
		perm[0], perm[n-1] = perm[n-1], perm[0]
	default: // reverse
		for i, j := 0, n-1; i < j; i, j = i+1, j-1 {
			perm[i], perm[j] = perm[j], perm[i]
		}
	}
	var k Keeper
	a1, err1 := k.WeightedMedian(ctx, reports, 7)
	a2, err2 := k.WeightedMedian(ctx, perm, 7)
	ndAssert(err1 == nil && err2 == nil, "no-error-on-valid-values")
	if err1 != nil || err2 != nil {
		return
	}
	ndReach("both-aggregated")
	ndAssert(vNum(a1.AggregateValue).Equal(vNum(a2.AggregateValue)), "median-value-independent-of-arrival-order")
	ndAssert(a1.ReporterPower == a2.ReporterPower, "power-independent-of-arrival-order")
}

func c06ModePower() uint64 {
	if ndTier() > 0 {
		return 4
	}
	return 3
}

// VerifC06_mode: WeightedMode returns a value whose reporters together hold maximal power.
func VerifC06_mode() {
	ctx, _, _ := ndEnv("oracle")
	n := 1 + ndLen("n", c06N())
	reports := vReports(n, c06ModePower(), "")
	orig := vCopyReports(reports)
	var k Keeper
	agg, err := k.WeightedMode(ctx, reports, 9)
	ndAssert(err == nil, "no-error-on-non-empty-reports")
	if err != nil {
		return
	}
	ndReach("aggregated")
	c06CheckCommon(orig, agg)
	// weight of a value = sum of powers of reports carrying exactly that value string
	w := func(val string) int {
		s := 0
		for i := 0; i < n; i++ {
			s += ndIteInt(orig[i].Value == val, int(orig[i].Power), 0)
		}
		return s
	}
	wc := w(agg.AggregateValue)
	maximal := true
	for i := 0; i < n; i++ {
		maximal = ndAnd(maximal, wc >= w(orig[i].Value))
	}
	ndAssert(maximal, "chosen-value-has-maximal-total-power")
	// the named reporter is a strongest reporter of the chosen value
	strongest := true
	var chosenPower uint64
	for i := 0; i < n; i++ {
		chosenPower = ndIteU64(orig[i].Reporter == agg.AggregateReporter, orig[i].Power, chosenPower)
	}
	for i := 0; i < n; i++ {
		strongest = ndAnd(strongest, ndImplies(orig[i].Value == agg.AggregateValue, orig[i].Power <= chosenPower))
	}
	ndAssert(strongest, "aggregate-reporter-is-a-strongest-reporter-of-the-value")
	ndAssert(agg.MetaId == 9, "meta-id-recorded")
}

// VerifC06_mode_empty: no reports is an error, not a panic.
func VerifC06_mode_empty() {
	ctx, _, _ := ndEnv("oracle")
	var k Keeper
	_, err := k.WeightedMode(ctx, []types.MicroReport{}, 1)
	ndAssert(err != nil, "empty-reports-is-an-error")
	ndReach("ran")
}


// c06TotalBelow2p63: the statement's range: total reporting power below 2^63
func c06TotalBelow2p63(reports []types.MicroReport) {
	total := uint64(0)
	for _, r := range reports {
		total += r.Power // each power <= 2^61 and at most 5 reports: no wrap-around
	}
	ndAssume(total < 1<<63)
}
