package keeper

import (
	"time"

	"github.com/tellor-io/layer/x/bridge/types"

	"cosmossdk.io/math"

	sdk "github.com/cosmos/cosmos-sdk/types"
	stakingtypes "github.com/cosmos/cosmos-sdk/x/staking/types"
)

// VerifC16_update_rule: CompareAndSetBridgeValidators records a new checkpoint exactly when the set's power has
// shifted by at least 5% since the last checkpoint or the last checkpoint is older than two weeks (tolerance: the
// code's one-second look-ahead on the age; the 10^-6 floor on the ratio needs no tolerance in this direction).
func VerifC16_update_rule() {
	const T = 1000 // total power of the saved set (a constant, so that the relative difference is linear)
	// membership: validator 1 is in both sets, has joined since the last checkpoint (not in the saved set) or has
	// left (not in the current set)
	member := ndPick("membership", 3)
	p0 := ndUint64("savedPower0")
	if member == 1 {
		ndAssume(p0 == T)
	} else {
		ndAssume(p0 >= 1 && p0 <= T-1)
	}
	p1 := uint64(T) - p0
	q0, q1 := ndUint64("newPower0"), ndUint64("newPower1")
	ndAssume(q0 >= 1 && q0 <= 3000 && q1 >= 1 && q1 <= 3000)
	// 20-byte addresses that differ in their last byte (byte-level: they are ABI-encoded when a checkpoint is written)
	a0, a1 := make([]byte, 20), make([]byte, 20)
	a0[19], a1[19] = ndUint8("evm0last"), ndUint8("evm1last")
	ndAssume(a0[19] != a1[19])
	ops := []string{sdk.ValAddress(ndAddr("op0")).String(), sdk.ValAddress(ndAddr("op1")).String()}
	ndAssume(ops[0] != ops[1])
	sk := c16Staking{}
	for i, q := range []uint64{q0, q1} {
		if i == 1 && member == 2 {
			q1 = 0
			break
		}
		tok := math.NewIntFromUint64(q).MulRaw(1000000)
		sk.vals = append(sk.vals, stakingtypes.Validator{OperatorAddress: ops[i], Status: stakingtypes.Bonded, Tokens: tok, DelegatorShares: math.LegacyNewDecFromInt(tok)})
	}
	ctx, k := vBridgeKeeper(sk, nil, nil, nil)
	must(k.OperatorToEVMAddressMap.Set(ctx, ops[0], types.EVMAddress{EVMAddress: a0}))
	must(k.OperatorToEVMAddressMap.Set(ctx, ops[1], types.EVMAddress{EVMAddress: a1}))
	// saved set in its canonical order (descending power, then address)
	s0 := &types.BridgeValidator{EthereumAddress: a0, Power: p0}
	s1 := &types.BridgeValidator{EthereumAddress: a1, Power: p1}
	saved := []*types.BridgeValidator{s0, s1}
	if p1 > p0 || (p1 == p0 && ndAtomLess(a1, a0)) {
		saved = []*types.BridgeValidator{s1, s0}
	}
	if member == 1 {
		saved = []*types.BridgeValidator{s0}
	}
	prevTs := ndUint64("prevCheckpointMs")
	ndAssume(prevTs >= 1 && prevTs < c15MaxMs)
	must(k.BridgeValset.Set(ctx, types.BridgeValidatorSet{BridgeValidatorSet: saved}))
	must(k.ValidatorCheckpointParamsMap.Set(ctx, prevTs, types.ValidatorCheckpointParams{Timestamp: prevTs, PowerThreshold: 666}))
	must(k.LatestCheckpointIdx.Set(ctx, types.CheckpointIdx{Index: 0}))
	must(k.ValidatorCheckpointIdxMap.Set(ctx, 0, types.CheckpointTimestamp{Timestamp: prevTs}))
	must(k.ValsetTimestampToIdxMap.Set(ctx, prevTs, types.CheckpointIdx{Index: 0}))
	must(k.BridgeValsetByTimestampMap.Set(ctx, prevTs, types.BridgeValidatorSet{BridgeValidatorSet: saved}))
	nowMs := ndUint64("nowMs")
	// block times are real dates: after 2001-09-09 (10^12 ms); before that "two weeks ago" would be a negative Unix time
	ndAssume(nowMs > prevTs && nowMs >= 1000000000000 && nowMs < c15MaxMs)
	updated, err := k.CompareAndSetBridgeValidators(ctx.WithBlockTime(time.UnixMilli(int64(nowMs))))
	ndAssert(err == nil, "no-error")
	if err != nil {
		return
	}
	ndReach("compared")
	_, perr := k.ValidatorCheckpointParamsMap.Get(ctx, nowMs)
	written := perr == nil
	ndAssert(written == updated, "return-value-tells-whether-a-checkpoint-was-recorded")
	abs := func(x, y uint64) uint64 { return ndIteU64(x >= y, x-y, y-x) }
	delta := abs(p0, q0) + abs(p1, q1)
	age := nowMs - prevTs
	const twoWeeksMs = 14 * 24 * 3600 * 1000
	shifted := delta*20 >= T // delta/T >= 5%
	if shifted {
		ndAssert(written, "power-shift-of-at-least-5-percent-records-a-checkpoint")
	}
	if age > twoWeeksMs+1000 {
		ndAssert(written, "checkpoint-older-than-two-weeks-is-renewed")
	}
	if written {
		ndAssert(ndOr(shifted, age >= twoWeeksMs-1001), "a-checkpoint-is-recorded-only-on-a-5-percent-shift-or-after-two-weeks")
		cur, cerr := k.BridgeValset.Get(ctx)
		sum := uint64(0)
		for _, v := range cur.BridgeValidatorSet {
			sum += v.Power
		}
		nNow := 2
		if member == 2 {
			nNow = 1
		}
		ndAssert(cerr == nil && len(cur.BridgeValidatorSet) == nNow && sum == q0+q1, "saved-set-replaced-by-the-current-set")
	} else {
		cur, cerr := k.BridgeValset.Get(ctx)
		sum := uint64(0)
		for _, v := range cur.BridgeValidatorSet {
			sum += v.Power
		}
		ndAssert(cerr == nil && len(cur.BridgeValidatorSet) == len(saved) && sum == T, "saved-set-kept")
	}
}
