package keeper

import (
	"encoding/binary"

	"github.com/tellor-io/layer/x/bridge/types"

	sdk "github.com/cosmos/cosmos-sdk/types"
	authtypes "github.com/cosmos/cosmos-sdk/x/auth/types"
)

func vBridgeKeeper(sk types.StakingKeeper, ok types.OracleKeeper, bank types.BankKeeper, rk types.ReporterKeeper) (sdk.Context, Keeper) {
	ctx, ss, cdc := ndEnv("bridge")
	k := NewKeeper(cdc, ss, sk, ok, bank, rk, authtypes.NewModuleAddress("gov").String())
	return ctx, k
}

// ---- reference ABI encoder, written from the Solidity ABI specification (head/tail layout, 32-byte words)

func vWordU64(v uint64) []byte {
	w := make([]byte, 32)
	binary.BigEndian.PutUint64(w[24:], v)
	return w
}

func vWordAddr(a []byte) []byte { // address: left-padded to 32 bytes
	w := make([]byte, 32)
	copy(w[32-len(a):], a)
	return w
}

func vWordBytes32(b []byte) []byte { // bytesN: right-padded
	w := make([]byte, 32)
	copy(w, b)
	return w
}

func vWordBool(b bool) []byte {
	w := make([]byte, 32)
	if b {
		w[31] = 1
	}
	return w
}

// vDyn: length word followed by the data right-padded to a multiple of 32
func vDyn(b []byte) []byte {
	out := vWordU64(uint64(len(b)))
	out = append(out, b...)
	if pad := (32 - len(b)%32) % 32; pad > 0 {
		out = append(out, make([]byte, pad)...)
	}
	return out
}

func vBytesEq(a, b []byte) bool {
	if len(a) != len(b) {
		return false
	}
	eq := true
	for i := range a {
		eq = ndAnd(eq, a[i] == b[i])
	}
	return eq
}
