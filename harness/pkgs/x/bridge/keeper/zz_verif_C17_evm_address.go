package keeper

import (
	"crypto/sha256"

	gethcrypto "github.com/ethereum/go-ethereum/crypto"
)

func c17DoubleHash(msg string) []byte {
	h1 := sha256.Sum256([]byte(msg))
	h2 := sha256.Sum256(h1[:])
	return h2[:]
}

// c17SignedPair: two signatures of one key over the two initial-signature messages such that the signer's address is
// candidate number ia of signature A and candidate number ib of signature B (the recovery ids). Symbolically: two
// arbitrary 65-byte strings; natively: the first test key whose signatures have those recovery ids.
func c17SignedPair(ia, ib int) ([]byte, []byte, []byte) {
	if ndSymbolic() {
		return ndByteSlice("sigA", 65), ndByteSlice("sigB", 65), nil
	}
	for seed := 1; seed < 4000; seed++ {
		kb := make([]byte, 32)
		kb[30], kb[31] = byte(seed>>8), byte(seed)
		key, err := gethcrypto.ToECDSA(kb)
		if err != nil {
			continue
		}
		sa, err1 := gethcrypto.Sign(c17DoubleHash("TellorLayer: Initial bridge signature A"), key)
		sb, err2 := gethcrypto.Sign(c17DoubleHash("TellorLayer: Initial bridge signature B"), key)
		if err1 != nil || err2 != nil {
			continue
		}
		if int(sa[64]) == ia && int(sb[64]) == ib {
			a := gethcrypto.PubkeyToAddress(key.PublicKey)
			return sa, sb, a[:]
		}
	}
	panic("no test key with these recovery ids")
}

// VerifC17_evm_address: EVMAddressFromSignatures registers the address that BOTH initial signatures recover, for
// every combination of recovery ids under which the signer's address appears among the two candidates of each
// signature (the other candidates being unrelated addresses).
func VerifC17_evm_address() {
	ctx, k := vBridgeKeeper(nil, nil, nil, nil)
	ia, ib := ndPick("recoveryIdA", 2), ndPick("recoveryIdB", 2)
	sigA, sigB, signer := c17SignedPair(ia, ib)
	candA, errA := k.TryRecoverAddressWithBothIDs(sigA, c17DoubleHash("TellorLayer: Initial bridge signature A"))
	candB, errB := k.TryRecoverAddressWithBothIDs(sigB, c17DoubleHash("TellorLayer: Initial bridge signature B"))
	if errA != nil || errB != nil {
		ndReach("unrecoverable")
		_, err := k.EVMAddressFromSignatures(ctx, sigA, sigB)
		ndAssert(err != nil, "unrecoverable-signatures-register-nothing")
		return
	}
	// the signer's address is candidate ia of A and ib of B; the other two candidates are unrelated
	ndAssume(vBytesEq(candA[ia].Bytes(), candB[ib].Bytes()))
	ndAssume(!vBytesEq(candA[1-ia].Bytes(), candB[ib].Bytes()))
	ndAssume(!vBytesEq(candA[1-ia].Bytes(), candB[1-ib].Bytes()))
	ndAssume(!vBytesEq(candA[ia].Bytes(), candB[1-ib].Bytes()))
	got, err := k.EVMAddressFromSignatures(ctx, sigA, sigB)
	ndReach("recovered")
	ndAssert(err == nil, "signatures-of-one-key-are-accepted")
	if err != nil {
		return
	}
	ndAssert(vBytesEq(got.Bytes(), candA[ia].Bytes()) && vBytesEq(got.Bytes(), candB[ib].Bytes()), "registered-address-is-the-one-both-signatures-recover")
	if signer != nil {
		ndAssert(vBytesEq(got.Bytes(), signer), "registered-address-is-the-signer's")
	}
}
