package keeper

import (
	"github.com/tellor-io/layer/x/bridge/types"
)

// VerifC19_snapshot_limit: the attestation-limit change is rejected unless requested by the governance authority.
func VerifC19_snapshot_limit() {
	ctx, k := vBridgeKeeper(nil, nil, nil, nil)
	must(k.SnapshotLimit.Set(ctx, types.SnapshotLimit{Limit: 10}))
	signer := ndString("signer")
	asAuthority := ndBool("asAuthority")
	if asAuthority {
		signer = k.GetAuthority()
	} else {
		ndAssume(signer != k.GetAuthority())
	}
	_, err := NewMsgServerImpl(k).UpdateSnapshotLimit(ctx, &types.MsgUpdateSnapshotLimit{Authority: signer, Limit: ndUint64("limit")})
	l, _ := k.SnapshotLimit.Get(ctx)
	if err == nil {
		ndReach("accepted")
		ndAssert(asAuthority, "only-the-governance-authority")
	}
	if !asAuthority {
		ndReach("non-authority")
		ndAssert(err != nil && l.Limit == 10, "non-authority-is-rejected-and-changes-nothing")
	}
}
