package keeper

import (
	"context"
	"encoding/hex"
	"math/big"

	"github.com/tellor-io/layer/x/bridge/types"
	oracletypes "github.com/tellor-io/layer/x/oracle/types"

	"cosmossdk.io/math"

	"github.com/ethereum/go-ethereum/crypto"

	sdk "github.com/cosmos/cosmos-sdk/types"
)

// c14Sink: the oracle keeper as WithdrawTokens sees it: records the aggregates it is given.
type c14Sink struct {
	types.OracleKeeper
	aggs []*oracletypes.Aggregate
}

func (o *c14Sink) SetAggregate(ctx context.Context, a *oracletypes.Aggregate) error {
	o.aggs = append(o.aggs, a)
	return nil
}

type c14Bonded struct {
	types.StakingKeeper
	total math.Int
}

func (s c14Bonded) TotalBondedTokens(context.Context) (math.Int, error) { return s.total, nil }

// c14WithdrawQueryId: keccak256(abi.encode("TRBBridge", abi.encode(false, id))) from the ABI specification.
func c14WithdrawQueryId(id uint64) []byte {
	args := append(vWordBool(false), vWordU64(id)...)
	ref := vWordU64(64)
	ref = append(ref, vWordU64(128)...)
	ref = append(ref, vDyn([]byte("TRBBridge"))...)
	ref = append(ref, vDyn(args)...)
	return crypto.Keccak256(ref)
}

var (
	c14Two64 = math.NewIntFromBigInt(new(big.Int).Lsh(big.NewInt(1), 64))
	c14Two72 = math.NewIntFromBigInt(new(big.Int).Lsh(big.NewInt(1), 72))
)

// VerifC14_withdraw: one or two withdrawals by a sender from an arbitrary withdrawal counter.
//   - a successful withdrawal burns exactly the requested amount from the sender (balance and supply both fall
//     by it, the bridge account keeps nothing), gets the id previous+1 (1 when there was none) which is stored,
//     and publishes exactly one aggregate: query id of that id, value = abi.encode(recipient, sender, amount, 0)
//   - a withdrawal the sender cannot pay for fails and changes nothing
//   - two withdrawals get increasing ids and different query ids
func VerifC14_withdraw() {
	bank := newVBank(false)
	sink := &c14Sink{}
	bonded := ndUint64("totalBonded")
	ctx, k := vBridgeKeeper(c14Bonded{total: math.NewIntFromUint64(bonded)}, sink, bank, nil)
	senderBytes := ndByteSlice("sender", 20)
	sender := sdk.AccAddress(senderBytes)
	bal0 := ndBigInt("senderBalance")
	ndAssume(!bal0.IsNegative())
	ndAssume(bal0.LT(c14Two72))
	// amounts that do not fit the report value's 64-bit amount field abort the transaction (state rolled back)
	ndAllowPanic("Uint64() out of bounds")
	bank.set(vbAcc(sender), bal0)
	hasCounter := ndBool("hasCounter")
	id0 := ndUint64("counter")
	ndAssume(id0 < 1<<62)
	if hasCounter {
		must(k.WithdrawalId.Set(ctx, types.WithdrawalId{Id: id0}))
	} else {
		id0 = 0
	}
	nw := 1 + ndLen("extraWithdrawals", 1+ndTier())
	prevID := id0
	spent := math.ZeroInt()
	var firstQuery []byte
	for w := 0; w < nw; w++ {
		amtWide := ndBigInt(nm("amount", w))
		ndAssume(amtWide.IsPositive())
		ndAssume(amtWide.LT(c14Two72))
		recipient := ndByteSlice(nm("recipient", w), 20)
		coin := sdk.Coin{Denom: "loya", Amount: amtWide}
		balBefore, burnedBefore, nAggs := bank.get(vbAcc(sender)), bank.burned, len(sink.aggs)
		id, err := k.WithdrawTokens(ctx, coin, sender, recipient)
		if err != nil {
			ndReach("rejected")
			ndAssert(balBefore.LT(coin.Amount), "only-an-unaffordable-withdrawal-fails")
			ndAssert(bank.get(vbAcc(sender)).Equal(balBefore) && bank.burned.Equal(burnedBefore), "failed-withdrawal-moves-nothing")
			ndAssert(len(sink.aggs) == nAggs, "failed-withdrawal-publishes-nothing")
			cur, cerr := k.WithdrawalId.Get(ctx)
			ndAssert((cerr != nil && prevID == 0) || (cerr == nil && cur.Id == prevID), "failed-withdrawal-keeps-the-counter")
			continue
		}
		ndReach("withdrawn")
		// the published value carries the amount in 64 bits: a larger withdrawal must not go through
		ndAssert(amtWide.LT(c14Two64), "a-withdrawal-beyond-the-encodable-amount-does-not-succeed")
		if !amtWide.LT(c14Two64) {
			return
		}
		amt := amtWide.Uint64()
		spent = spent.Add(coin.Amount)
		ndAssert(bank.get(vbAcc(sender)).Equal(balBefore.Sub(coin.Amount)), "sender-loses-exactly-the-amount")
		ndAssert(bank.burned.Equal(burnedBefore.Add(coin.Amount)) && bank.minted.IsZero(), "exactly-the-amount-is-burned")
		ndAssert(bank.modBal(types.ModuleName).IsZero(), "bridge-account-keeps-nothing")
		ndAssert(id == prevID+1, "id-is-previous-plus-one")
		cur, cerr := k.WithdrawalId.Get(ctx)
		ndAssert(cerr == nil && cur.Id == id, "id-is-stored")
		ndAssert(len(sink.aggs) == nAggs+1, "exactly-one-aggregate-published")
		if len(sink.aggs) == nAggs+1 {
			a := sink.aggs[nAggs]
			q := c14WithdrawQueryId(id)
			ndAssert(vBytesEq(a.QueryId, q), "aggregate-is-under-the-withdrawal-query-of-that-id")
			ref := vWordAddr(recipient)
			ref = append(ref, vWordU64(128)...)
			ref = append(ref, vWordU64(amt)...)
			ref = append(ref, vWordU64(0)...)
			ref = append(ref, vDyn([]byte(sender.String()))...)
			ndAssert(a.AggregateValue == hex.EncodeToString(ref), "value-encodes-recipient-sender-and-that-amount")
			ndAssert(!a.Flagged && a.ReporterPower == bonded && len(a.Reporters) == 0 && a.AggregateReporter == "", "aggregate-carries-no-reporter-and-the-bonded-power")
			ndAssert(a.Height == uint64(ctx.BlockHeight()), "aggregate-height-is-the-block")
			if w == 0 {
				firstQuery = a.QueryId
			} else if firstQuery != nil {
				ndAssert(!vBytesEq(firstQuery, a.QueryId), "two-withdrawals-have-different-queries")
			}
		}
		prevID = id
	}
	ndAssert(bank.get(vbAcc(sender)).Equal(bal0.Sub(spent)), "sender-balance-is-initial-minus-withdrawn")
}


// c14BadRecipients: recipient strings that are not the hex text of bytes
var c14BadRecipients = []string{"zz", "1234567g", "123", "0x1234", "12 34", "tellor1qqqq"}

// VerifC14_withdraw_msg: the message handler: wrong denom, zero or negative amounts and recipients that are not hex
// text are refused before anything is burned; a well-formed message burns the amount and publishes the aggregate for
// exactly the decoded recipient.
func VerifC14_withdraw_msg() {
	bank := newVBank(false)
	sink := &c14Sink{}
	ctx, k := vBridgeKeeper(c14Bonded{total: math.NewInt(1000)}, sink, bank, nil)
	senderBytes := ndByteSlice("sender", 20)
	sender := sdk.AccAddress(senderBytes)
	bal0 := math.NewIntFromUint64(1 << 62)
	bank.set(vbAcc(sender), bal0)
	amt := ndBigInt("amount")
	ndAssume(amt.GT(math.NewInt(-1000)))
	ndAssume(amt.LT(math.NewIntFromUint64(1 << 61)))
	denom := []string{"loya", "stake"}[ndPick("denom", 2)]
	recipientBytes := ndByteSlice("recipient", 20)
	kind := ndPick("recipientKind", 1+len(c14BadRecipients))
	recipient := hex.EncodeToString(recipientBytes)
	if kind > 0 {
		recipient = c14BadRecipients[kind-1]
	}
	_, err := NewMsgServerImpl(k).WithdrawTokens(ctx, &types.MsgWithdrawTokens{Creator: sender.String(), Recipient: recipient, Amount: sdk.Coin{Denom: denom, Amount: amt}})
	if err != nil {
		ndReach("refused")
		ndAssert(bank.nCalls == 0 && len(sink.aggs) == 0, "refused-message-burns-and-publishes-nothing")
		ndAssert(kind > 0 || denom != "loya" || !amt.IsPositive(), "a-well-formed-affordable-message-is-not-refused")
		return
	}
	ndReach("withdrawn")
	ndAssert(denom == "loya" && amt.IsPositive(), "only-positive-loya-amounts")
	ndAssert(kind == 0, "only-hex-recipients")
	ndAssert(bank.get(vbAcc(sender)).Equal(bal0.Sub(amt)) && bank.burned.Equal(amt), "exactly-the-amount-is-burned-from-the-sender")
	if len(sink.aggs) == 1 && kind == 0 {
		ref := vWordAddr(recipientBytes)
		ref = append(ref, vWordU64(128)...)
		ref = append(ref, vWordU64(amt.Uint64())...)
		ref = append(ref, vWordU64(0)...)
		ref = append(ref, vDyn([]byte(sender.String()))...)
		ndAssert(sink.aggs[0].AggregateValue == hex.EncodeToString(ref), "value-encodes-the-decoded-recipient-the-sender-and-the-amount")
	} else {
		ndAssert(false, "exactly-one-aggregate-published")
	}
}
