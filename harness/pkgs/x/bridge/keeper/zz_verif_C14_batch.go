package keeper

import (
	"context"
	"errors"
	"math/big"
	"time"

	oracletypes "github.com/tellor-io/layer/x/oracle/types"

	"github.com/tellor-io/layer/x/bridge/types"

	"cosmossdk.io/math"

	sdk "github.com/cosmos/cosmos-sdk/types"
)

// c14BatchOracle: the oracle keeper as a batched claim sees it: one aggregate per listed (deposit query id, index).
type c14BatchOracle struct {
	types.OracleKeeper
	qids [][]byte
	idx  []uint64
	aggs []*oracletypes.Aggregate
	ts   []time.Time
}

func (o *c14BatchOracle) GetAggregateByIndex(ctx context.Context, queryId []byte, index uint64) (*oracletypes.Aggregate, time.Time, error) {
	for i := range o.qids {
		if index == o.idx[i] && vBytesEq(queryId, o.qids[i]) {
			return o.aggs[i], o.ts[i], nil
		}
	}
	return nil, time.Time{}, errors.New("no aggregate found at index")
}

// VerifC14_claim_deposits_msg: MsgClaimDeposits with one or two (deposit id, report index) pairs. The message
// succeeds only if every pair is claimable on its own AND no deposit id occurs twice (not even under two different
// report indices); then exactly the sum of the reported amounts / 10^12 is minted, the tips go to the signer and the
// rest to each reported recipient. A length mismatch between ids and indices is refused before anything happens.
// (A failing message is rolled back by the SDK; the harness asserts nothing about the partial state of a failure.)
func VerifC14_claim_deposits_msg() {
	bank := newVBank(false)
	or := &c14BatchOracle{}
	ctx, k := vBridgeKeeper(nil, or, bank, nil)
	n := 1 + ndLen("extraDeposits", 1)
	cpTs, cpThr := ndUint64("cpTs"), ndUint64("cpThr")
	ndAssume(cpTs >= 1 && cpTs < c15MaxMs)
	must(k.ValidatorCheckpointParamsMap.Set(ctx, cpTs, types.ValidatorCheckpointParams{PowerThreshold: cpThr, Timestamp: cpTs}))
	nowMs := ndUint64("nowMs")
	ndAssume(nowMs < c15MaxMs)
	claimer := sdk.AccAddress(ndByteSlice("claimer", 20))
	two128 := new(big.Int).Lsh(big.NewInt(1), 128)
	ids, idxs := make([]uint64, n), make([]uint64, n)
	recipients := make([]sdk.AccAddress, n)
	amounts, tips := make([]math.Int, n), make([]math.Int, n)
	flagged, power, aggMs := make([]bool, n), make([]uint64, n), make([]uint64, n)
	for i := 0; i < n; i++ {
		ids[i], idxs[i] = ndUint64(nm("depositId", i)), ndUint64(nm("reportIndex", i))
		recipients[i] = sdk.AccAddress(ndByteSlice(nm("recipient", i), 20))
		ndAssume(string(recipients[i]) != string(claimer))
		for j := 0; j < i; j++ {
			ndAssume(string(recipients[i]) != string(recipients[j]))
		}
		amount, tip := ndBigPtr(nm("amount", i)), ndBigPtr(nm("tip", i))
		ndAssume(amount.Sign() >= 0 && amount.Cmp(two128) < 0 && tip.Sign() >= 0 && tip.Cmp(two128) < 0)
		amounts[i], tips[i] = math.NewIntFromBigInt(new(big.Int).Set(amount)), math.NewIntFromBigInt(new(big.Int).Set(tip))
		flagged[i], power[i], aggMs[i] = ndBool(nm("flagged", i)), ndUint64(nm("reporterPower", i)), ndUint64(nm("aggregateMs", i))
		ndAssume(aggMs[i] >= 1 && aggMs[i] <= nowMs)
		qid, err := k.GetDepositQueryId(ids[i])
		must(err)
		or.qids = append(or.qids, qid)
		or.idx = append(or.idx, idxs[i])
		or.ts = append(or.ts, time.UnixMilli(int64(aggMs[i])))
		or.aggs = append(or.aggs, &oracletypes.Aggregate{
			AggregateValue: c14Encode(ndByteSlice(nm("ethSender", i), 20), recipients[i].String(), amount, tip),
			Flagged:        flagged[i], ReporterPower: power[i],
		})
	}
	mismatch := ndBool("lengthMismatch")
	msg := &types.MsgClaimDepositsRequest{Creator: claimer.String(), DepositIds: ids, Indices: idxs}
	if mismatch {
		msg.Indices = idxs[:n-1]
	}
	// a transaction whose handler panics is rejected by the SDK's runTx recovery: not a chain halt
	ndAllowPanic("negative coin amount")
	_, err := NewMsgServerImpl(k).ClaimDeposits(ctx.WithBlockTime(time.UnixMilli(int64(nowMs))), msg)
	if mismatch {
		ndReach("length-mismatch")
		ndAssert(err != nil, "ids-and-indices-of-different-length-are-refused")
		ndAssert(bank.minted.IsZero() && bank.nCalls == 0, "refused-message-mints-and-moves-nothing")
		for i := 0; i < n; i++ {
			st, _ := k.DepositIdClaimedMap.Get(ctx, ids[i])
			ndAssert(!st.Claimed, "refused-message-claims-nothing")
		}
		return
	}
	if err != nil {
		ndReach("rejected")
		return
	}
	ndReach("all-claimed")
	for i := 0; i < n; i++ {
		for j := 0; j < i; j++ {
			ndAssert(ids[i] != ids[j], "a-deposit-id-listed-twice-is-not-claimed-twice")
		}
	}
	wantMint, wantTips := math.ZeroInt(), math.ZeroInt()
	for i := 0; i < n; i++ {
		ndAssert(!flagged[i], "every-claim-from-an-unflagged-aggregate")
		ndAssert(nowMs-aggMs[i] >= 12*3600*1000, "every-aggregate-at-least-12h-old")
		ndAssert(cpTs < aggMs[i] && power[i] >= cpThr, "every-aggregate-reached-the-threshold-in-force-at-its-time")
		st, _ := k.DepositIdClaimedMap.Get(ctx, ids[i])
		ndAssert(st.Claimed, "every-listed-deposit-marked-claimed")
		m, t := amounts[i].QuoRaw(1000000000000), tips[i].QuoRaw(1000000000000)
		wantMint, wantTips = wantMint.Add(m), wantTips.Add(t)
		ndAssert(bank.get(vbAcc(recipients[i])).Equal(m.Sub(t)), "each-recipient-receives-its-amount-less-the-tip")
	}
	ndAssert(bank.minted.Equal(wantMint), "minted-is-the-sum-of-the-reported-amounts-over-10^12")
	ndAssert(bank.get(vbAcc(claimer)).Equal(wantTips), "the-signer-receives-the-tips")
	ndAssert(bank.burned.IsZero() && bank.modBal("bridge").IsZero(), "nothing-burned-and-nothing-left-in-the-bridge-account")
}
