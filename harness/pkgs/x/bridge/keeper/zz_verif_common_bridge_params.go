package keeper

import (
	"time"

	"github.com/tellor-io/layer/x/bridge/types"

	"cosmossdk.io/math"

	"github.com/ethereum/go-ethereum/crypto"
)

func vParamsVals() int {
	if ndTier() > 0 {
		return 4
	}
	return 2
}

func vValset(prefix string, n int) *types.BridgeValidatorSet {
	vs := make([]*types.BridgeValidator, n)
	for i := 0; i < n; i++ {
		vs[i] = &types.BridgeValidator{EthereumAddress: ndByteSlice(nm(prefix+"addr", i), 20), Power: ndUint64(nm(prefix+"power", i))}
		ndAssume(vs[i].Power >= 1 && vs[i].Power <= 1<<61)
	}
	return &types.BridgeValidatorSet{BridgeValidatorSet: vs}
}

// VerifBridge_set_params: one SetBridgeValidatorParams step from an arbitrary checkpoint history satisfying the
// bridge invariant B1/B2 (contiguous indexes, index map and timestamp map mutually inverse).
//   - threshold = floor(2 * total power / 3) (C15), stored with hash and checkpoint that are mutually consistent (C16)
//   - index = previous + 1 (0 for the first), timestamp strictly greater than the previous one
//   - signature slots = size of the PREVIOUS set (own set for the first checkpoint)
func VerifBridge_set_params() {
	ctx, k := vBridgeKeeper(nil, nil, nil, nil)
	hasPrev := ndBool("hasPrev")
	var prevIdx, prevTs uint64
	m := 0
	if hasPrev {
		prevIdx = ndUint64("prevIdx")
		prevTs = ndUint64("prevTs")
		ndAssume(prevIdx < 1<<40 && prevTs >= 1 && prevTs < c15MaxMs)
		m = 1 + ndLen("m", vParamsVals()-1)
		prevSet := vValset("prev", m)
		must(k.LatestCheckpointIdx.Set(ctx, types.CheckpointIdx{Index: prevIdx}))
		must(k.ValidatorCheckpointIdxMap.Set(ctx, prevIdx, types.CheckpointTimestamp{Timestamp: prevTs}))
		must(k.ValsetTimestampToIdxMap.Set(ctx, prevTs, types.CheckpointIdx{Index: prevIdx}))
		must(k.BridgeValsetByTimestampMap.Set(ctx, prevTs, *prevSet))
	}
	n := 1 + ndLen("n", vParamsVals()-1)
	set := vValset("new", n)
	// total power stays below 2^63 (power is stake / 10^6: 2^63 would be more loya than a uint64 amount can name);
	// SetBridgeValidatorParams doubles the total in a uint64
	var sum uint64
	for _, v := range set.BridgeValidatorSet {
		sum += v.Power
	}
	ndAssume(sum < 1<<63)
	nowMs := ndUint64("nowMs")
	ndAssume(nowMs > prevTs && nowMs < c15MaxMs)
	bctx := ctx.WithBlockTime(time.UnixMilli(int64(nowMs)))
	err := k.SetBridgeValidatorParams(bctx, set)
	ndAssert(err == nil, "no-error")
	if err != nil {
		return
	}
	ndReach("stored")
	total := math.ZeroInt()
	for _, v := range set.BridgeValidatorSet {
		total = total.Add(math.NewIntFromUint64(v.Power))
	}
	want := total.MulRaw(2).QuoRaw(3)
	p, perr := k.ValidatorCheckpointParamsMap.Get(ctx, nowMs)
	ndAssert(perr == nil, "params-stored-under-block-time-ms")
	if perr != nil {
		return
	}
	ndAssert(math.NewIntFromUint64(p.PowerThreshold).Equal(want), "threshold-is-two-thirds-of-total-power-rounded-down")
	_, wantHash, herr := k.EncodeAndHashValidatorSet(ctx, set)
	ndAssert(herr == nil && vBytesEq(p.ValsetHash, wantHash), "stored-hash-is-the-hash-of-the-stored-set")
	ref := vWordBytes32([]byte("checkpoint"))
	ref = append(ref, vWordU64(p.PowerThreshold)...)
	ref = append(ref, vWordU64(nowMs)...)
	ref = append(ref, vWordBytes32(p.ValsetHash)...)
	ndAssert(vBytesEq(p.Checkpoint, crypto.Keccak256(ref)), "stored-checkpoint-commits-to-threshold-timestamp-and-hash")
	cp, cerr := k.ValidatorCheckpoint.Get(ctx)
	ndAssert(cerr == nil && vBytesEq(cp.Checkpoint, p.Checkpoint), "current-checkpoint-item-is-the-new-checkpoint")
	wantIdx := uint64(0)
	if hasPrev {
		wantIdx = prevIdx + 1
	}
	li, lerr := k.LatestCheckpointIdx.Get(ctx)
	ndAssert(lerr == nil && li.Index == wantIdx, "index-is-previous-plus-one")
	it, ierr := k.ValidatorCheckpointIdxMap.Get(ctx, wantIdx)
	ti, terr := k.ValsetTimestampToIdxMap.Get(ctx, nowMs)
	ndAssert(ierr == nil && it.Timestamp == nowMs && terr == nil && ti.Index == wantIdx, "index-and-timestamp-maps-are-mutually-inverse")
	bs, berr := k.BridgeValsetByTimestampMap.Get(ctx, nowMs)
	ndAssert(berr == nil && len(bs.BridgeValidatorSet) == n, "set-stored-under-its-timestamp")
	sigs, serr := k.BridgeValsetSignaturesMap.Get(ctx, nowMs)
	wantSlots := n
	if hasPrev {
		wantSlots = m
	}
	ndAssert(serr == nil && len(sigs.Signatures) == wantSlots, "one-signature-slot-per-member-of-the-previous-set")
	if hasPrev {
		// the previous checkpoint's records are untouched
		pit, e1 := k.ValidatorCheckpointIdxMap.Get(ctx, prevIdx)
		pti, e2 := k.ValsetTimestampToIdxMap.Get(ctx, prevTs)
		ndAssert(e1 == nil && pit.Timestamp == prevTs && e2 == nil && pti.Index == prevIdx, "previous-checkpoint-records-untouched")
	}
}

const c15MaxMs = 4000000000000

func must(err error) {
	if err != nil {
		panic(err)
	}
}
