package keeper

import (
	"encoding/hex"

	"github.com/tellor-io/layer/x/bridge/types"

	"cosmossdk.io/math"

	"github.com/ethereum/go-ethereum/crypto"

	sdk "github.com/cosmos/cosmos-sdk/types"
)

func c15Vals() int {
	if ndTier() > 0 {
		return 5
	}
	return 2
}

// VerifC15_valset_hash: EncodeAndHashValidatorSet = keccak256(abi.encode(Validator[])) with
// Validator{address addr; uint256 power}: offset word 0x20, length, then (addr, power) pairs.
func VerifC15_valset_hash() {
	ctx, k := vBridgeKeeper(nil, nil, nil, nil)
	n := 1 + ndLen("n", c15Vals()-1)
	vs := make([]*types.BridgeValidator, n)
	for i := 0; i < n; i++ {
		vs[i] = &types.BridgeValidator{EthereumAddress: ndByteSlice(nm("addr", i), 20), Power: ndUint64(nm("power", i))}
	}
	enc, hash, err := k.EncodeAndHashValidatorSet(ctx, &types.BridgeValidatorSet{BridgeValidatorSet: vs})
	ndAssert(err == nil, "no-error")
	if err != nil {
		return
	}
	ndReach("encoded")
	ref := vWordU64(32)
	ref = append(ref, vWordU64(uint64(n))...)
	for i := 0; i < n; i++ {
		ref = append(ref, vWordAddr(vs[i].EthereumAddress)...)
		ref = append(ref, vWordU64(vs[i].Power)...)
	}
	ndAssert(vBytesEq(enc, ref), "encoding-is-abi-encode-of-validator-array")
	ndAssert(vBytesEq(hash, crypto.Keccak256(ref)), "hash-is-keccak-of-that-encoding")
}

// VerifC15_checkpoint: the domain-separated checkpoint
// keccak256(abi.encode(VALIDATOR_SET_HASH_DOMAIN_SEPARATOR, powerThreshold, validatorTimestamp, validatorSetHash)).
func VerifC15_checkpoint() {
	ctx, k := vBridgeKeeper(nil, nil, nil, nil)
	thr, ts := ndUint64("threshold"), ndUint64("timestamp")
	h := ndByteSlice("valsethash", 32)
	cp, err := k.CalculateValidatorSetCheckpoint(ctx, thr, ts, h)
	ndAssert(err == nil, "no-error")
	if err != nil {
		return
	}
	ndReach("computed")
	// bytes32 "checkpoint" (evm/contracts/bridge/Constants.sol: 0x636865636b706f696e74 00..00)
	ref := vWordBytes32([]byte("checkpoint"))
	ref = append(ref, vWordU64(thr)...)
	ref = append(ref, vWordU64(ts)...)
	ref = append(ref, vWordBytes32(h)...)
	ndAssert(vBytesEq(cp, crypto.Keccak256(ref)), "checkpoint-is-keccak-of-domain-separated-encoding")
	stored, gerr := k.ValidatorCheckpointParamsMap.Get(ctx, ts)
	ndAssert(gerr == nil && vBytesEq(stored.Checkpoint, cp) && vBytesEq(stored.ValsetHash, h) && stored.PowerThreshold == thr && stored.Timestamp == ts, "stored-params-are-the-hashed-ones")
}

func c15ValueLen() int {
	if ndTier() > 0 {
		return []int{0, 1, 16, 31, 32, 33, 48, 64, 65, 96}[ndPick("vlen", 10)]
	}
	return []int{0, 1, 32, 33}[ndPick("vlen", 4)]
}

// VerifC15_attestation: the digest validators sign for an oracle attestation:
// keccak256(abi.encode(NEW_REPORT_ATTESTATION_DOMAIN_SEPARATOR, queryId, value(bytes), timestamp, aggregatePower,
// previousTimestamp, nextTimestamp, valsetCheckpoint, attestationTimestamp)).
func VerifC15_attestation() {
	ctx, k := vBridgeKeeper(nil, nil, nil, nil)
	_ = ctx
	qid := ndByteSlice("qid", 32)
	vlen := c15ValueLen()
	val := ndByteSlice("value", vlen)
	ts, pw, prev, next, ats := ndUint64("ts"), ndUint64("power"), ndUint64("prev"), ndUint64("next"), ndUint64("attestTs")
	cp := ndByteSlice("checkpoint", 32)
	got, err := k.EncodeOracleAttestationData(qid, hex.EncodeToString(val), ts, pw, prev, next, cp, ats)
	ndAssert(err == nil, "no-error-on-hex-value")
	if err != nil {
		return
	}
	ndReach("encoded")
	// 0x74656c6c6f7243757272656e744174746573746174696f6e ("tellorCurrentAttestation") right-padded, Constants.sol
	ref := vWordBytes32([]byte("tellorCurrentAttestation"))
	ref = append(ref, vWordBytes32(qid)...)
	ref = append(ref, vWordU64(9*32)...) // offset of the dynamic value: after the 9 head words
	ref = append(ref, vWordU64(ts)...)
	ref = append(ref, vWordU64(pw)...)
	ref = append(ref, vWordU64(prev)...)
	ref = append(ref, vWordU64(next)...)
	ref = append(ref, vWordBytes32(cp)...)
	ref = append(ref, vWordU64(ats)...)
	ref = append(ref, vDyn(val)...)
	ndAssert(vBytesEq(got, crypto.Keccak256(ref)), "digest-is-keccak-of-the-contract-encoding")
}

// VerifC15_query_ids: deposit / withdrawal query ids =
// keccak256(abi.encode("TRBBridge", abi.encode(bool toLayer, uint256 id))).
func VerifC15_query_ids() {
	_, k := vBridgeKeeper(nil, nil, nil, nil)
	id := ndUint64("id")
	inner := func(toLayer bool) []byte {
		args := append(vWordBool(toLayer), vWordU64(id)...)
		ref := vWordU64(64)                 // offset of the string
		ref = append(ref, vWordU64(128)...) // offset of the bytes: 2 head words + string (len word + 1 data word)
		ref = append(ref, vDyn([]byte("TRBBridge"))...)
		ref = append(ref, vDyn(args)...)
		return crypto.Keccak256(ref)
	}
	dq, err := k.GetDepositQueryId(id)
	ndAssert(err == nil && vBytesEq(dq, inner(true)), "deposit-query-id")
	wq, err := k.GetWithdrawalQueryId(id)
	ndAssert(err == nil && vBytesEq(wq, inner(false)), "withdrawal-query-id")
	ndAssert(!vBytesEq(dq, wq), "deposit-and-withdrawal-ids-differ")
	ndReach("computed")
}

// VerifC15_withdraw_value: abi.encode(address ethRecipient, string layerSender, uint256 amount, uint256 tip=0).
func VerifC15_withdraw_value() {
	_, k := vBridgeKeeper(nil, nil, nil, nil)
	amt := ndUint64("amount")
	sender := sdk.AccAddress(ndByteSlice("sender", 20))
	rlen := []int{20, 19, 21}[ndPick("rlen", 3)]
	recipient := ndByteSlice("recipient", rlen)
	got, err := k.GetWithdrawalReportValue(sdk.Coin{Denom: "loya", Amount: math.NewIntFromUint64(amt)}, sender, recipient)
	ndAssert(err == nil, "no-error")
	if err != nil {
		return
	}
	ndReach("encoded")
	// common.BytesToAddress: the last 20 bytes, left-padded when shorter
	r := recipient
	if len(r) > 20 {
		r = r[len(r)-20:]
	}
	ref := vWordAddr(r)
	ref = append(ref, vWordU64(128)...) // string offset: 4 head words
	ref = append(ref, vWordU64(amt)...)
	ref = append(ref, vWordU64(0)...)
	ref = append(ref, vDyn([]byte(sender.String()))...)
	ndAssert(vBytesEq(got, ref), "withdrawal-report-value-layout")
}
