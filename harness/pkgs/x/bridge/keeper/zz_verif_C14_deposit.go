package keeper

import (
	"context"
	"encoding/hex"
	"errors"
	"math/big"
	"time"

	oracletypes "github.com/tellor-io/layer/x/oracle/types"

	"github.com/tellor-io/layer/x/bridge/types"

	"cosmossdk.io/math"

	"github.com/ethereum/go-ethereum/accounts/abi"
	"github.com/ethereum/go-ethereum/common"

	sdk "github.com/cosmos/cosmos-sdk/types"
)

// c14Oracle: the oracle keeper as ClaimDeposit sees it: one aggregate (or none) for the requested (queryId, index).
type c14Oracle struct {
	types.OracleKeeper
	agg     *oracletypes.Aggregate
	ts      time.Time
	askedQ  []byte
	askedIx uint64
	nAsked  int
}

func (o *c14Oracle) GetAggregateByIndex(ctx context.Context, queryId []byte, index uint64) (*oracletypes.Aggregate, time.Time, error) {
	o.askedQ, o.askedIx = queryId, index
	o.nAsked++
	if o.agg == nil {
		return nil, time.Time{}, errors.New("no aggregate found at index")
	}
	return o.agg, o.ts, nil
}

// c14Encode: the deposit report value as the token bridge contract writes it:
// abi.encode(address ethSender, string layerRecipient, uint256 amount, uint256 tip), hex text.
func c14Encode(ethSender []byte, recipient string, amount, tip *big.Int) string {
	addrT, _ := abi.NewType("address", "", nil)
	strT, _ := abi.NewType("string", "", nil)
	u256T, _ := abi.NewType("uint256", "", nil)
	args := abi.Arguments{{Type: addrT}, {Type: strT}, {Type: u256T}, {Type: u256T}}
	b, err := args.Pack(common.BytesToAddress(ethSender), recipient, amount, tip)
	if err != nil {
		panic(err)
	}
	return hex.EncodeToString(b)
}

// VerifC14_claim_deposit: a deposit turns into tokens at most once, only from an unflagged, 12h-old aggregate
// with enough power, and exactly amount/10^12 is minted, the tip part to the claimer, the rest to the recipient.
func VerifC14_claim_deposit() {
	bank := newVBank(false)
	hasAgg := ndBool("hasAggregate")
	flagged := ndBool("flagged")
	power := ndUint64("reporterPower")
	aggMs := ndUint64("aggregateMs")
	ndAssume(aggMs >= 1 && aggMs < c15MaxMs)
	recipientBytes := ndByteSlice("recipient", 20)
	recipient := sdk.AccAddress(recipientBytes)
	amount := ndBigPtr("amount")
	tip := ndBigPtr("tip")
	two256 := new(big.Int).Lsh(big.NewInt(1), 256)
	ndAssume(amount.Sign() >= 0 && amount.Cmp(two256) < 0 && tip.Sign() >= 0 && tip.Cmp(two256) < 0)
	amountWide := math.NewIntFromBigInt(new(big.Int).Set(amount))
	tipWide := math.NewIntFromBigInt(new(big.Int).Set(tip))
	value := c14Encode(ndByteSlice("ethSender", 20), recipient.String(), amount, tip)
	or := &c14Oracle{ts: time.UnixMilli(int64(aggMs))}
	if hasAgg {
		or.agg = &oracletypes.Aggregate{AggregateValue: value, Flagged: flagged, ReporterPower: power}
	}
	ctx, k := vBridgeKeeper(nil, or, bank, nil)
	depositId := ndUint64("depositId")
	index := ndUint64("reportIndex")
	claimedBefore := ndBool("claimedBefore")
	if claimedBefore {
		must(k.DepositIdClaimedMap.Set(ctx, depositId, types.DepositClaimed{Claimed: true}))
	}
	// checkpoint history: up to two checkpoints with thresholds
	nCp := ndLen("ncheckpoints", 2+ndTier())
	cpTs := make([]uint64, nCp)
	cpThr := make([]uint64, nCp)
	for i := 0; i < nCp; i++ {
		cpTs[i] = ndUint64(nm("cpTs", i))
		cpThr[i] = ndUint64(nm("cpThr", i))
		ndAssume(cpTs[i] >= 1 && cpTs[i] < c15MaxMs)
		for j := 0; j < i; j++ {
			ndAssume(cpTs[i] != cpTs[j])
		}
		must(k.ValidatorCheckpointParamsMap.Set(ctx, cpTs[i], types.ValidatorCheckpointParams{PowerThreshold: cpThr[i], Timestamp: cpTs[i]}))
	}
	nowMs := ndUint64("nowMs")
	ndAssume(nowMs >= aggMs && nowMs < c15MaxMs)
	claimer := sdk.AccAddress(ndByteSlice("claimer", 20))
	// a transaction whose handler panics is rejected by the SDK's runTx recovery: not a chain halt
	ndAllowPanic("negative coin amount")
	err := k.ClaimDeposit(ctx.WithBlockTime(time.UnixMilli(int64(nowMs))), depositId, index, claimer)
	st, _ := k.DepositIdClaimedMap.Get(ctx, depositId)
	if err != nil {
		ndReach("rejected")
		ndAssert(bank.minted.IsZero() && bank.nCalls == 0, "rejected-claim-mints-and-moves-nothing")
		ndAssert(st.Claimed == claimedBefore, "rejected-claim-leaves-claimed-status")
		return
	}
	ndReach("claimed")
	ndAssert(hasAgg && !flagged, "only-from-an-existing-unflagged-aggregate")
	ndAssert(!claimedBefore, "at-most-once-per-deposit-id")
	ndAssert(st.Claimed, "marked-claimed-afterwards")
	ndAssert(nowMs-aggMs >= 12*3600*1000, "aggregate-at-least-12h-old")
	wantQ, _ := k.GetDepositQueryId(depositId)
	ndAssert(or.nAsked == 1 && vBytesEq(or.askedQ, wantQ) && or.askedIx == index, "aggregate-looked-up-under-the-deposit-query-id")
	// threshold in force at report time: the checkpoint with the greatest timestamp strictly before the aggregate
	var best, bestThr uint64
	for i := 0; i < nCp; i++ {
		upd := ndAnd(cpTs[i] < aggMs, cpTs[i] > best)
		best = ndIteU64(upd, cpTs[i], best)
		bestThr = ndIteU64(upd, cpThr[i], bestThr)
	}
	ndAssert(best != 0 && power >= bestThr, "power-reached-the-threshold-in-force-at-report-time")
	wantMint := amountWide.QuoRaw(1000000000000)
	wantTip := tipWide.QuoRaw(1000000000000)
	ndAssert(bank.minted.Equal(wantMint), "minted-is-reported-amount-over-10^12")
	ndAssert(bank.burned.IsZero(), "nothing-burned")
	ndAssert(bank.modBal("bridge").IsZero(), "bridge-account-holds-nothing-afterwards")
	if string(claimer) != string(recipient) {
		ndAssert(bank.get(vbAcc(claimer)).Equal(wantTip), "tip-part-to-the-claimer")
		ndAssert(bank.get(vbAcc(recipient)).Equal(wantMint.Sub(wantTip)), "rest-to-the-reported-recipient")
	} else {
		ndAssert(bank.get(vbAcc(recipient)).Equal(wantMint), "self-claim-receives-everything")
	}
}
