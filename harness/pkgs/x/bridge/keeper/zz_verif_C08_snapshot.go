package keeper

import (
	"context"
	"encoding/hex"
	"errors"
	"fmt"
	"time"

	"github.com/tellor-io/layer/x/bridge/types"
	oracletypes "github.com/tellor-io/layer/x/oracle/types"

	"github.com/ethereum/go-ethereum/crypto"
)

// c08Oracle: the oracle keeper as CreateSnapshot sees it. GetTimestampBefore/After are checked against the
// chronological list of aggregates by the C08.a obligations; here they answer with arbitrary neighbours (or none).
type c08Oracle struct {
	types.OracleKeeper
	agg               *oracletypes.Aggregate
	before, after     time.Time
	noBefore, noAfter bool
	asked             *c08Asked
}

type c08Asked struct {
	n      int
	okArgs bool
	qid    []byte
	ts     time.Time
}

func (a *c08Asked) note(queryId []byte, timestamp time.Time) {
	a.n++
	a.okArgs = ndAnd(a.okArgs, ndAnd(vBytesEq(queryId, a.qid), timestamp.Equal(a.ts)))
}

func (o c08Oracle) GetAggregateByTimestamp(ctx context.Context, queryId []byte, timestamp time.Time) (oracletypes.Aggregate, error) {
	o.asked.note(queryId, timestamp)
	if o.agg == nil {
		return oracletypes.Aggregate{}, errors.New("aggregate not found")
	}
	return *o.agg, nil
}

func (o c08Oracle) GetTimestampBefore(ctx context.Context, queryId []byte, timestamp time.Time) (time.Time, error) {
	o.asked.note(queryId, timestamp)
	if o.noBefore {
		return time.Time{}, errors.New("no data before timestamp")
	}
	return o.before, nil
}

func (o c08Oracle) GetTimestampAfter(ctx context.Context, queryId []byte, timestamp time.Time) (time.Time, error) {
	o.asked.note(queryId, timestamp)
	if o.noAfter {
		return time.Time{}, errors.New("no data after timestamp")
	}
	return o.after, nil
}

// VerifC08_snapshot: CreateSnapshot for an aggregate (query, timestamp): the snapshot digest is the attestation
// encoding of (query id, value, timestamp, power, previous, next, current checkpoint, block time), where previous /
// next are exactly the neighbouring aggregate timestamps the oracle reports (0 when there is none); the snapshot is
// recorded under that digest with the same fields, appended to the report's snapshot list, gets one empty
// attestation slot per member of the current bridge validator set, and is queued at the current height.
func VerifC08_snapshot() {
	qid := ndByteSlice("qid", 32)
	val := ndByteSlice("value", 32)
	tsMs, beforeMs, afterMs, nowMs := ndUint64("ts"), ndUint64("before"), ndUint64("after"), ndUint64("now")
	for _, m := range []uint64{tsMs, beforeMs, afterMs, nowMs} {
		ndAssume(m >= 1)
		ndAssume(m < c15MaxMs)
	}
	ts := time.UnixMilli(int64(tsMs)).UTC()
	or := c08Oracle{asked: &c08Asked{okArgs: true, qid: qid, ts: ts}, before: time.UnixMilli(int64(beforeMs)), after: time.UnixMilli(int64(afterMs)), noBefore: ndBool("noEarlier"), noAfter: ndBool("noLater")}
	power := ndUint64("power")
	if ndBool("hasAggregate") {
		or.agg = &oracletypes.Aggregate{QueryId: qid, AggregateValue: hex.EncodeToString(val), ReporterPower: power}
	}
	ctx0, k := vBridgeKeeper(nil, or, nil, nil)
	h := ndInt64("height")
	ndAssume(h >= 1)
	ndAssume(h < 1<<40)
	ctx := ctx0.WithBlockHeight(h).WithBlockTime(time.UnixMilli(int64(nowMs)).UTC())
	cp := ndByteSlice("checkpoint", 32)
	must(k.ValidatorCheckpoint.Set(ctx, types.ValidatorCheckpoint{Checkpoint: cp}))
	nVals := 2
	if ndTier() >= 1 {
		nVals = 1 + ndLen("validators", 2)
	}
	set := types.BridgeValidatorSet{}
	for i := 0; i < nVals; i++ {
		set.BridgeValidatorSet = append(set.BridgeValidatorSet, &types.BridgeValidator{EthereumAddress: []byte{byte(i + 1)}, Power: uint64(10 + i)})
	}
	must(k.BridgeValset.Set(ctx, set))
	must(k.SnapshotLimit.Set(ctx, types.SnapshotLimit{Limit: 10}))
	// an earlier snapshot of the same report may exist (taken when its neighbours were different): the new snapshot
	// must carry the neighbours as they are now
	if ndBool("snapshotTakenBefore") {
		oldSnap := ndByteSlice("earlierSnapshot", 32)
		key := crypto.Keccak256([]byte(hex.EncodeToString(qid) + fmt.Sprint(ts.UnixMilli())))
		must(k.AttestSnapshotsByReportMap.Set(ctx, key, types.AttestationSnapshots{Snapshots: [][]byte{oldSnap}}))
		must(k.AttestSnapshotDataMap.Set(ctx, oldSnap, types.AttestationSnapshotData{ValidatorCheckpoint: cp, AttestationTimestamp: 1, PrevReportTimestamp: ndUint64("stalePrev"), NextReportTimestamp: ndUint64("staleNext"), QueryId: qid, Timestamp: tsMs}))
	}
	err := k.CreateSnapshot(ctx, qid, ts, ndBool("external"))
	if err != nil {
		ndReach("refused")
		ndAssert(or.agg == nil, "only-a-missing-aggregate-is-refused")
		return
	}
	ndReach("snapshot")
	ndAssert(or.asked.n == 3 && or.asked.okArgs, "aggregate-and-neighbours-are-looked-up-for-this-query-and-timestamp")
	wantPrev, wantNext := ndIteU64(or.noBefore, 0, beforeMs), ndIteU64(or.noAfter, 0, afterMs)
	digest, derr := k.EncodeOracleAttestationData(qid, hex.EncodeToString(val), tsMs, power, wantPrev, wantNext, cp, nowMs)
	must(derr)
	data, gerr := k.AttestSnapshotDataMap.Get(ctx, digest)
	ndAssert(gerr == nil, "snapshot-recorded-under-the-digest-of-the-neighbours-the-oracle-reports")
	if gerr == nil {
		ndAssert(data.PrevReportTimestamp == wantPrev && data.NextReportTimestamp == wantNext, "previous-and-next-are-the-neighbouring-aggregates-or-zero")
		ndAssert(data.Timestamp == tsMs && data.AttestationTimestamp == nowMs && vBytesEq(data.QueryId, qid) && vBytesEq(data.ValidatorCheckpoint, cp), "snapshot-fields-are-those-of-the-digest")
	}
	atts, aerr := k.SnapshotToAttestationsMap.Get(ctx, digest)
	ndAssert(aerr == nil && len(atts.Attestations) == nVals, "one-attestation-slot-per-member-of-the-current-set")
	reqs, rerr := k.AttestRequestsByHeightMap.Get(ctx, uint64(h))
	ndAssert(rerr == nil && len(reqs.Requests) == 1 && vBytesEq(reqs.Requests[0].Snapshot, digest), "queued-for-signing-at-this-height")
}
