package keeper

import (
	"context"
	"encoding/hex"
	"time"

	"github.com/tellor-io/layer/x/bridge/types"

	"cosmossdk.io/math"

	sdk "github.com/cosmos/cosmos-sdk/types"
	stakingtypes "github.com/cosmos/cosmos-sdk/x/staking/types"
)

type c16Staking struct {
	types.StakingKeeper
	vals []stakingtypes.Validator
}

func (s c16Staking) GetAllValidators(ctx context.Context) ([]stakingtypes.Validator, error) {
	return s.vals, nil
}

func c16N() int {
	if ndTier() > 0 {
		return 4
	}
	return 3
}

// VerifC16_current_set: GetCurrentValidatorsEVMCompatible = exactly the validators with a registered EVM address
// and non-zero consensus power, ordered by descending power, then ascending address.
func VerifC16_current_set() {
	n := 1 + ndLen("n", c16N()-1)
	sk := c16Staking{}
	ops := make([]string, n)
	evm := make([][]byte, n)
	hasAddr := make([]bool, n)
	power := make([]int64, n)
	for i := 0; i < n; i++ {
		ops[i] = sdk.ValAddress(ndAddr(nm("op", i))).String()
		evm[i] = ndBytesN(nm("evm", i), 20)
		for j := 0; j < i; j++ {
			ndAssume(ops[i] != ops[j] && string(evm[i]) != string(evm[j]))
		}
		hasAddr[i] = ndBool(nm("hasEvm", i))
		tokens := ndBigInt(nm("tokens", i))
		ndAssume(!tokens.IsNegative() && tokens.LT(math.NewIntWithDecimal(1, 18)))
		st := []stakingtypes.BondStatus{stakingtypes.Bonded, stakingtypes.Unbonded}[ndPick(nm("status", i), 2)]
		sk.vals = append(sk.vals, stakingtypes.Validator{OperatorAddress: ops[i], Status: st, Tokens: tokens, DelegatorShares: math.LegacyNewDecFromInt(tokens)})
		// consensus power: whole tokens of a BONDED validator (x/staking)
		if st == stakingtypes.Bonded {
			power[i] = tokens.QuoRaw(1000000).Int64()
		}
	}
	ctx, k := vBridgeKeeper(sk, nil, nil, nil)
	for i := 0; i < n; i++ {
		if hasAddr[i] {
			must(k.OperatorToEVMAddressMap.Set(ctx, ops[i], types.EVMAddress{EVMAddress: evm[i]}))
		}
	}
	set, err := k.GetCurrentValidatorsEVMCompatible(ctx)
	want := 0
	for i := 0; i < n; i++ {
		if hasAddr[i] && power[i] > 0 {
			want++
		}
	}
	if want == 0 {
		ndAssert(err != nil, "no-qualifying-validator-is-an-error")
		ndReach("empty")
		return
	}
	ndAssert(err == nil && len(set) == want, "exactly-the-validators-with-address-and-non-zero-power")
	if err != nil || len(set) != want {
		return
	}
	ndReach("built")
	// every qualifying validator appears with its power
	all := true
	for i := 0; i < n; i++ {
		if hasAddr[i] && power[i] > 0 {
			found := false
			for _, bv := range set {
				found = ndOr(found, ndAnd(string(bv.EthereumAddress) == string(evm[i]), bv.Power == uint64(power[i])))
			}
			all = ndAnd(all, found)
		}
	}
	ndAssert(all, "each-qualifying-validator-listed-with-its-power")
	sorted := true
	for j := 1; j < len(set); j++ {
		a, b := set[j-1], set[j]
		sorted = ndAnd(sorted, ndOr(a.Power > b.Power, ndAnd(a.Power == b.Power, ndAtomLess(a.EthereumAddress, b.EthereumAddress))))
	}
	ndAssert(sorted, "ordered-by-descending-power-then-ascending-address")
}

// VerifC16_signature_slot: SetBridgeValsetSignature stores a validator's signature for a checkpoint only in the slot
// that corresponds to that validator's position in the PREVIOUS set; every other slot is unchanged. With the slots
// in previous-set order, whenever members holding more than two thirds of the previous power have signed, the
// contract's cumulative-power check (threshold = floor(2*total/3) of the previous set) passes.
func VerifC16_signature_slot() {
	ctx, k := vBridgeKeeper(nil, nil, nil, nil)
	m := 2 + ndLen("m", 1)
	prev := make([]*types.BridgeValidator, m)
	for i := 0; i < m; i++ {
		prev[i] = &types.BridgeValidator{EthereumAddress: ndBytesN(nm("prevAddr", i), 20), Power: ndUint64(nm("prevPower", i))}
		ndAssume(prev[i].Power >= 1 && prev[i].Power <= 1<<40)
		for j := 0; j < i; j++ {
			ndAssume(string(prev[i].EthereumAddress) != string(prev[j].EthereumAddress))
		}
	}
	// the new set: the same members in a possibly different order (a power change reorders them)
	rot := ndPick("newOrder", 2)
	newSet := make([]*types.BridgeValidator, m)
	for i := 0; i < m; i++ {
		newSet[i] = prev[(i+rot)%m]
	}
	prevTs, ts := uint64(1000), uint64(2000)
	idx := uint64(1 + ndLen("idx", 2))
	must(k.ValsetTimestampToIdxMap.Set(ctx, ts, types.CheckpointIdx{Index: idx}))
	must(k.ValidatorCheckpointIdxMap.Set(ctx, idx-1, types.CheckpointTimestamp{Timestamp: prevTs}))
	must(k.ValidatorCheckpointIdxMap.Set(ctx, idx, types.CheckpointTimestamp{Timestamp: ts}))
	must(k.BridgeValsetByTimestampMap.Set(ctx, prevTs, types.BridgeValidatorSet{BridgeValidatorSet: prev}))
	must(k.BridgeValsetByTimestampMap.Set(ctx, ts, types.BridgeValidatorSet{BridgeValidatorSet: newSet}))
	must(k.BridgeValsetSignaturesMap.Set(ctx, ts, *types.NewBridgeValsetSignatures(m)))
	// operators: one per previous member (+ one outsider with an address not in the previous set)
	ops := make([]string, m+1)
	for i := 0; i < m; i++ {
		ops[i] = ndString(nm("op", i))
		for j := 0; j < i; j++ {
			ndAssume(ops[i] != ops[j])
		}
		must(k.OperatorToEVMAddressMap.Set(ctx, ops[i], types.EVMAddress{EVMAddress: prev[i].EthereumAddress}))
	}
	signer := ndPick("signer", m)
	sig := ndBytesN("sig", 65)
	err := k.SetBridgeValsetSignature(ctx, ops[signer], ts, hex.EncodeToString(sig))
	ndAssert(err == nil, "no-error")
	if err != nil {
		return
	}
	ndReach("signed")
	got, gerr := k.BridgeValsetSignaturesMap.Get(ctx, ts)
	ndAssert(gerr == nil && len(got.Signatures) == m, "slot-count-unchanged")
	if gerr != nil || len(got.Signatures) != m {
		return
	}
	ok := true
	for i := 0; i < m; i++ {
		if i == signer {
			ok = ndAnd(ok, string(got.Signatures[i]) == string(sig))
		} else {
			ok = ndAnd(ok, len(got.Signatures[i]) == 0)
		}
	}
	ndAssert(ok, "signature-lands-only-in-the-signers-slot-of-the-previous-set")
	did, pos, derr := k.GetValidatorDidSignCheckpoint(ctx, ops[signer], ts)
	ndAssert(derr == nil && did && pos == int64(signer), "did-sign-reads-the-same-slot")
	_ = time.Second
}

// VerifC17_attestation_slot: SetOracleAttestation for a snapshot that has n slots while the current bridge validator
// set has m members: the signature lands only in the slot of the sender's position in the current set; a sender whose
// position has no slot in this (older) snapshot writes nothing and causes no panic; every other slot is untouched.
func VerifC17_attestation_slot() {
	ctx, k := vBridgeKeeper(nil, nil, nil, nil)
	m := 1 + ndLen("members", 2)
	n := 1 + ndLen("slots", 2)
	set := types.BridgeValidatorSet{}
	for i := 0; i < m; i++ {
		set.BridgeValidatorSet = append(set.BridgeValidatorSet, &types.BridgeValidator{EthereumAddress: []byte{byte(0x10 + i), 2, 3, 4, 5, 6, 7, 8, 9, 10, 11, 12, 13, 14, 15, 16, 17, 18, 19, 20}, Power: uint64(10 - i)})
	}
	must(k.BridgeValset.Set(ctx, set))
	who := ndPick("sender", 3)
	ndAssume(who < m)
	op := "operator-of-the-sender"
	must(k.OperatorToEVMAddressMap.Set(ctx, op, types.EVMAddress{EVMAddress: set.BridgeValidatorSet[who].EthereumAddress}))
	snapshot := ndByteSlice("snapshot", 32)
	must(k.SnapshotToAttestationsMap.Set(ctx, snapshot, *types.NewOracleAttestations(n)))
	sig := ndByteSlice("signature", 65)
	err := k.SetOracleAttestation(ctx, op, snapshot, sig)
	ndReach("called")
	got, gerr := k.SnapshotToAttestationsMap.Get(ctx, snapshot)
	ndAssert(gerr == nil && len(got.Attestations) == n, "the-number-of-slots-does-not-change")
	if gerr != nil || len(got.Attestations) != n {
		return
	}
	for i := 0; i < n; i++ {
		if i == who {
			ndAssert(err == nil && vBytesEq(got.Attestations[i], sig), "signature-lands-in-the-sender's-slot")
		} else {
			ndAssert(len(got.Attestations[i]) == 0, "every-other-slot-is-untouched")
		}
	}
}
