package keeper

import (
	"github.com/tellor-io/layer/x/bridge/types"
)

// VerifC01_powerdiff: PowerDiff (a sum of absolute values over a Go map) gives the same result for every iteration
// order: executed twice on the same two sets. [map-order]
func VerifC01_powerdiff() {
	ctx, k := vBridgeKeeper(nil, nil, nil, nil)
	mk := func(prefix string, n int, pool [][]byte) types.BridgeValidatorSet {
		vs := make([]*types.BridgeValidator, n)
		for i := 0; i < n; i++ {
			p := ndUint64(nm(prefix+"power", i))
			if ndTier() == 0 {
				ndAssume(p <= 1<<40) // quick: no int64 wrap-around reachable; thorough: full uint64 range
			}
			who := 0
			if prefix == "c" {
				who = ndPick(nm(prefix+"who", i), len(pool))
			}
			vs[i] = &types.BridgeValidator{EthereumAddress: pool[who], Power: p}
		}
		return types.BridgeValidatorSet{BridgeValidatorSet: vs}
	}
	pool := [][]byte{ndBytesN("a0", 20), ndBytesN("a1", 20), ndBytesN("a2", 20)}
	ndAssume(string(pool[0]) != string(pool[1]) && string(pool[0]) != string(pool[2]) && string(pool[1]) != string(pool[2]))
	nb := 2 + ndTier()
	nc := 1 + ndLen("nc", 1+ndTier())
	b := mk("b", nb, pool)
	for i := 0; i < nb; i++ {
		b.BridgeValidatorSet[i].EthereumAddress = pool[i] // the saved set has distinct members
	}
	c := mk("c", nc, pool)
	d1 := k.PowerDiff(ctx, b, c)
	d2 := k.PowerDiff(ctx, b, c)
	ndAssert(d1 == d2, "same-power-diff-in-both-executions")
	ndReach("ran")
}
