package keeper

import (
	regtypes "github.com/tellor-io/layer/x/registry/types"
)

// VerifC02_value_attestation: a value that passes the data spec's validation at submission is encoded without
// error when the bridge EndBlocker builds the attestation snapshot for its aggregate.
func VerifC02_value_attestation() {
	_, k := vBridgeKeeper(nil, nil, nil, nil)
	l := []int{64, 66}[ndPick("len", 2)]
	v := ndStr("v", l)
	spec := regtypes.DataSpec{ResponseValueType: "uint256"}
	if spec.ValidateValue(v) != nil {
		ndReach("rejected-at-submission")
		return
	}
	ndReach("accepted-at-submission")
	_, err := k.EncodeOracleAttestationData(ndByteSlice("qid", 32), v, 1, 2, 0, 0, ndByteSlice("cp", 32), 3)
	ndAssert(err == nil, "accepted-value-is-encoded-without-error")
}
