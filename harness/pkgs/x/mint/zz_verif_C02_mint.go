package mint

// VerifC02_mint_beginblock: from any minter state with block time not before the stored previous time, and a gap
// of at least 1 ms (consensus minimum) when a previous time exists, BeginBlocker returns nil and does not panic.
func VerifC02_mint_beginblock() {
	ctx, k, bank, initialized, hasPrev, prev, now := vMintSetup("")
	_ = bank
	ndAssume(!now.Before(prev))
	gap := now.UnixNano() - prev.UnixNano()
	// up to 1 year, far beyond the 21-day unbonding period
	ndAssume(gap <= 31536000000000000)
	err := BeginBlocker(ctx, k)
	_, _ = initialized, hasPrev
	ndAssert(err == nil, "begin-blocker-returns-nil")
	ndReach("ran")
}
