package mint

import (
	"context"
	"time"

	"github.com/tellor-io/layer/x/mint/keeper"
	"github.com/tellor-io/layer/x/mint/types"

	"cosmossdk.io/math"

	sdk "github.com/cosmos/cosmos-sdk/types"
	authtypes "github.com/cosmos/cosmos-sdk/x/auth/types"
)

type vMintAcc struct{ types.AccountKeeper }

func (vMintAcc) GetModuleAddress(name string) sdk.AccAddress { return authtypes.NewModuleAddress(name) }

// vMintSetup: a mint keeper over an empty store with the bank model, minter state symbolic.
func vMintSetup(prefix string) (sdk.Context, keeper.Keeper, *vBank, bool, bool, time.Time, time.Time) {
	ctx, ss, cdc := ndEnv("mint")
	bank := newVBank(false)
	k := keeper.NewKeeper(cdc, ss, vMintAcc{}, bank, authtypes.NewModuleAddress("gov").String())
	initialized := ndBool(prefix + "initialized")
	hasPrev := ndBool(prefix + "hasPrev")
	prev := ndTime(prefix + "prev")
	now := ndTime(prefix + "now")
	m := types.Minter{BondDenom: "loya", Initialized: initialized}
	if hasPrev {
		m.PreviousBlockTime = &prev
	}
	if err := k.Minter.Set(ctx, m); err != nil {
		panic(err)
	}
	return ctx.WithBlockTime(now), k, bank, initialized, hasPrev, prev, now
}

// vMintExpected: floor(146940000 * ms / 86400000) in unbounded integers, ms = whole milliseconds elapsed.
func vMintExpected(prev, now time.Time) math.Int {
	ms := math.NewInt(now.UnixNano()).Sub(math.NewInt(prev.UnixNano())).QuoRaw(1000000)
	return ms.MulRaw(146940000).QuoRaw(86400000)
}

var _ = context.Background
