package mint

import (
	"github.com/tellor-io/layer/x/mint/keeper"
	"github.com/tellor-io/layer/x/mint/types"
)

// VerifC01_mint_wallclock: BeginBlocker run twice from identical states (time.Now is a fresh arbitrary instant at
// every call in both runs): same error-ness, same bank effects, same stored minter.
func VerifC01_mint_wallclock() {
	ctx1, k1, bank1, _, _, prev, now := vMintSetup("")
	ctx2, k2, bank2, _, _, _, _ := vMintSetup("")
	ndAssume(!now.Before(prev))
	ndAssume(now.UnixNano()-prev.UnixNano() <= 31536000000000000)
	e1 := BeginBlocker(ctx1, k1)
	e2 := BeginBlocker(ctx2, k2)
	ndAssert((e1 == nil) == (e2 == nil), "same-outcome")
	ndAssert(bank1.minted.Equal(bank2.minted), "same-minted-amount")
	ndAssert(bank1.modBal("fee_collector").Equal(bank2.modBal("fee_collector")) && bank1.modBal("time_based_rewards").Equal(bank2.modBal("time_based_rewards")), "same-balances")
	m1, _ := k1.Minter.Get(ctx1)
	m2, _ := k2.Minter.Get(ctx2)
	same := (m1.PreviousBlockTime == nil) == (m2.PreviousBlockTime == nil)
	if same && m1.PreviousBlockTime != nil {
		same = m1.PreviousBlockTime.Equal(*m2.PreviousBlockTime)
	}
	ndAssert(same, "same-stored-previous-time")
	ndAssert(ndEventCount(ctx1) == ndEventCount(ctx2), "same-number-of-events")
	ndReach("ran")
}

// VerifC01_mint_init_wallclock: the governance message that starts minting, followed by the next block's
// BeginBlocker, executed on two nodes from identical states (time.Now is a fresh arbitrary instant at every call on
// both): same outcome of the message, same stored minter after it, same minted amount and state after the block.
func VerifC01_mint_init_wallclock() {
	ctx1, k1, bank1, initialized, hasPrev, prev, now := vMintSetup("")
	ctx2, k2, bank2, _, _, _, _ := vMintSetup("")
	ndAssume(initialized || !hasPrev)
	ndAssume(!now.Before(prev))
	signer := ndString("signer")
	if ndBool("asAuthority") {
		signer = k1.GetAuthority()
	}
	_, e1 := keeper.NewMsgServerImpl(k1).Init(ctx1, &types.MsgInit{Authority: signer})
	_, e2 := keeper.NewMsgServerImpl(k2).Init(ctx2, &types.MsgInit{Authority: signer})
	ndAssert((e1 == nil) == (e2 == nil), "same-outcome-of-the-message")
	sameMinter := func() bool {
		m1, _ := k1.Minter.Get(ctx1)
		m2, _ := k2.Minter.Get(ctx2)
		same := m1.Initialized == m2.Initialized && (m1.PreviousBlockTime == nil) == (m2.PreviousBlockTime == nil)
		if same && m1.PreviousBlockTime != nil {
			same = m1.PreviousBlockTime.Equal(*m2.PreviousBlockTime)
		}
		return same
	}
	ndAssert(sameMinter(), "same-stored-minter-after-the-message")
	// the next block, at most a year later
	next := ndTime("next")
	ndAssume(!next.Before(now) && next.UnixNano()-prev.UnixNano() <= 31536000000000000)
	b1 := BeginBlocker(ctx1.WithBlockTime(next), k1)
	b2 := BeginBlocker(ctx2.WithBlockTime(next), k2)
	ndAssert((b1 == nil) == (b2 == nil), "same-outcome-of-the-next-block")
	ndAssert(bank1.minted.Equal(bank2.minted), "same-minted-amount")
	ndAssert(sameMinter(), "same-stored-minter-after-the-next-block")
	ndReach("ran")
}
