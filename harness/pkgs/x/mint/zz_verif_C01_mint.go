package mint

// VerifC01_mint_wallclock: BeginBlocker run twice from identical states (time.Now is a fresh arbitrary instant at
// every call in both runs): same error-ness, same bank effects, same stored minter.
func VerifC01_mint_wallclock() {
	ctx1, k1, bank1, _, _, prev, now := vMintSetup("")
	ctx2, k2, bank2, _, _, _, _ := vMintSetup("")
	ndAssume(!now.Before(prev))
	ndAssume(now.UnixNano()-prev.UnixNano() <= 31536000000000000)
	e1 := BeginBlocker(ctx1, k1)
	e2 := BeginBlocker(ctx2, k2)
	ndAssert((e1 == nil) == (e2 == nil), "same-outcome")
	ndAssert(bank1.minted.Equal(bank2.minted), "same-minted-amount")
	ndAssert(bank1.modBal("fee_collector").Equal(bank2.modBal("fee_collector")) && bank1.modBal("time_based_rewards").Equal(bank2.modBal("time_based_rewards")), "same-balances")
	m1, _ := k1.Minter.Get(ctx1)
	m2, _ := k2.Minter.Get(ctx2)
	same := (m1.PreviousBlockTime == nil) == (m2.PreviousBlockTime == nil)
	if same && m1.PreviousBlockTime != nil {
		same = m1.PreviousBlockTime.Equal(*m2.PreviousBlockTime)
	}
	ndAssert(same, "same-stored-previous-time")
	ndAssert(ndEventCount(ctx1) == ndEventCount(ctx2), "same-number-of-events")
	ndReach("ran")
}
