package mint

import (
	"github.com/tellor-io/layer/x/mint/keeper"
	"github.com/tellor-io/layer/x/mint/types"

	"cosmossdk.io/math"
)

// VerifC03_mint_amount: one BeginBlocker step from an arbitrary minter state.
func VerifC03_mint_amount() {
	ctx, k, bank, initialized, hasPrev, prev, now := vMintSetup("")
	// block time never decreases (CometBFT BFT time); gaps up to 1 year
	ndAssume(!now.Before(prev))
	ndAssume(now.UnixNano()-prev.UnixNano() <= 31536000000000000)
	// representation invariant M0 (established by genesis, preserved by Init and BeginBlocker - asserted below and in
	// VerifC03_mint_init): before governance starts minting no previous block time is recorded, so the first
	// provision after the start covers only the time since the start
	ndAssume(initialized || !hasPrev)
	err := BeginBlocker(ctx, k)
	if !initialized || !hasPrev {
		ndAssert(err == nil, "no-error-when-not-minting")
		ndAssert(bank.minted.IsZero() && bank.nCalls == 0, "no-mint-before-governance-start-or-without-previous-time")
		m, gerr := k.Minter.Get(ctx)
		ndAssert(gerr == nil && (m.Initialized || m.PreviousBlockTime == nil), "invariant-M0-no-previous-time-before-start")
		ndAssert(gerr == nil && m.Initialized == initialized, "begin-blocker-does-not-start-minting")
		ndReach("not-minting")
		return
	}
	want := vMintExpected(prev, now)
	if err != nil {
		ndReach("begin-blocker-error")
		// whatever happened, no more than the formula was minted
		ndAssert(bank.minted.LTE(want), "minted-at-most-formula-on-error")
		return
	}
	ndReach("minted")
	ndAssert(bank.minted.Equal(want), "minted-is-rate-times-elapsed-ms-floor")
	quarter := want.QuoRaw(4)
	ndAssert(bank.modBal("fee_collector").Equal(quarter), "one-quarter-to-fee-collector")
	ndAssert(bank.modBal("time_based_rewards").Equal(want.Sub(quarter)), "three-quarters-to-time-based-rewards")
	ndAssert(bank.modBal("mint").IsZero(), "mint-account-keeps-nothing")
	ndAssert(bank.burned.IsZero(), "nothing-burned")
	m, gerr := k.Minter.Get(ctx)
	ndAssert(gerr == nil && m.PreviousBlockTime != nil && m.PreviousBlockTime.Equal(now), "previous-block-time-advanced")
}

// VerifC03_mint_cumulative: over k consecutive blocks with non-decreasing times the total minted never exceeds
// rate * (t_k - t_0) / day.
func VerifC03_mint_cumulative() {
	ctx, k, bank, initialized, hasPrev, prev, now := vMintSetup("")
	ndAssume(initialized && hasPrev && !now.Before(prev))
	steps := 2
	if ndTier() > 0 {
		steps = 3
	}
	t0 := prev
	last := prev
	cur := now
	for i := 0; i < steps; i++ {
		if i > 0 {
			cur = ndTime(nm("t", i))
			ndAssume(!cur.Before(last))
		}
		ndAssume(cur.UnixNano()-t0.UnixNano() <= 31536000000000000)
		if err := BeginBlocker(ctx.WithBlockTime(cur), k); err != nil {
			ndReach("halted")
			return // a failing BeginBlocker halts the chain; nothing after it is committed (C02's subject)
		}
		last = cur
	}
	// exact bound in nanoseconds: minted * 86400000 * 10^6 <= 146940000 * (t_k - t_0)[ns]
	elapsedNs := math.NewInt(last.UnixNano()).Sub(math.NewInt(t0.UnixNano()))
	ndAssert(bank.minted.MulRaw(86400000).MulRaw(1000000).LTE(elapsedNs.MulRaw(146940000)), "cumulative-mint-at-most-rate-times-elapsed")
	ndReach("ran")
}

// VerifC03_mint_init: the Init message flips Initialized for the governance authority only, touches neither the
// previous block time nor the bank, and is rejected for anybody else / when already initialised.
func VerifC03_mint_init() {
	ctx, k, bank, initialized, hasPrev, _, _ := vMintSetup("")
	ndAssume(initialized || !hasPrev)
	signer := ndString("signer")
	asAuthority := ndBool("asAuthority")
	if asAuthority {
		signer = k.GetAuthority()
	} else {
		ndAssume(signer != k.GetAuthority())
	}
	_, err := keeper.NewMsgServerImpl(k).Init(ctx, &types.MsgInit{Authority: signer})
	m, gerr := k.Minter.Get(ctx)
	ndAssert(gerr == nil, "minter-readable")
	ndAssert(bank.nCalls == 0 && bank.minted.IsZero(), "init-mints-nothing")
	ndAssert(m.Initialized || m.PreviousBlockTime == nil, "invariant-M0-no-previous-time-before-start")
	ndAssert((m.PreviousBlockTime != nil) == hasPrev, "init-does-not-touch-previous-time")
	if err == nil {
		ndReach("accepted")
		ndAssert(asAuthority, "only-the-governance-authority-starts-minting")
		ndAssert(!initialized && m.Initialized, "init-once")
	} else {
		ndReach("rejected")
		ndAssert(m.Initialized == initialized, "rejected-init-changes-nothing")
	}
}
