package keeper

import (
	"github.com/tellor-io/layer/x/reporter/types"

	"cosmossdk.io/math"

	sdk "github.com/cosmos/cosmos-sdk/types"
	stakingtypes "github.com/cosmos/cosmos-sdk/x/staking/types"
)

// VerifC05_fee_from_stake: FeefromReporterStake takes a dispute fee out of the stake selected to a reporter: what
// leaves the staking ledger (Unbond) is what leaves the bonded pool for the dispute account, and the per-backer
// record of what was taken sums to that amount.
func VerifC05_fee_from_stake() {
	bank := newVBank(false)
	sk := newVStaking(bank)
	rep := ndAddr("reporter")
	// two bonded validators; exchange rate 1, or 93 tokens per 100 shares (a validator slashed 7% earlier)
	addrs := []sdk.ValAddress{sdk.ValAddress(ndAddr("val0")), sdk.ValAddress(ndAddr("val1"))}
	ndAssume(string(addrs[0]) != string(addrs[1]))
	slashed := ndPick("rate", 2) == 1
	for i := 0; i < 2; i++ {
		tokens, shares := math.NewInt(5000000000), math.LegacyNewDec(5000000000)
		if slashed && i == 0 {
			tokens = math.NewInt(4650000000)
		}
		sk.vals = append(sk.vals, stakingtypes.Validator{OperatorAddress: addrs[i].String(), Status: stakingtypes.Bonded, Tokens: tokens, DelegatorShares: shares})
	}
	// the reporter is its own (only) selector with one or two delegations
	nd := 1 + ndLen("ndelegations", 1)
	staked := math.ZeroInt()
	for i := 0; i < nd; i++ {
		sh := ndBigInt(nm("shares", i))
		ndAssume(sh.IsPositive() && sh.LT(math.NewInt(1000000000)))
		sk.dels = append(sk.dels, stakingtypes.Delegation{DelegatorAddress: sdk.AccAddress(rep).String(), ValidatorAddress: addrs[i].String(), Shares: math.LegacyNewDecFromInt(sh)})
		staked = staked.Add(sh)
	}
	ctx, k := vRepKeeper(sk, bank)
	must2(k.Reporters.Set(ctx, rep, types.OracleReporter{MinTokensRequired: math.OneInt(), CommissionRate: math.LegacyZeroDec()}))
	must2(k.Selectors.Set(ctx, rep, types.Selection{Reporter: rep, DelegationsCount: uint64(nd)}))
	// the bonded pool backs the validators
	pool0 := math.NewInt(20000000000)
	bank.set(vbMod(stakingtypes.BondedPoolName), pool0)
	fee := ndBigInt("fee")
	ndAssume(fee.IsPositive() && fee.LT(math.NewInt(1000000000)))
	hash := ndHash("hash")
	err := k.FeefromReporterStake(ctx, rep, fee, hash)
	if err != nil {
		ndReach("rejected")
		ndAssert(bank.nCalls == 0 && sk.nUnbond == 0, "rejected-fee-takes-nothing")
		return
	}
	ndReach("paid")
	moved := bank.modBal("dispute")
	ndAssert(moved.Equal(sk.unbonded), "what-leaves-the-ledger-is-what-leaves-the-bonded-pool")
	ndAssert(bank.modBal(stakingtypes.BondedPoolName).Equal(pool0.Sub(moved)), "bonded-pool-decreases-by-that-amount")
	rec, rerr := k.FeePaidFromStake.Get(ctx, hash)
	ndAssert(rerr == nil && rec.Total.Equal(moved), "recorded-total-is-the-amount-moved")
	if rerr == nil {
		sum := math.ZeroInt()
		for _, o := range rec.TokenOrigins {
			sum = sum.Add(o.Amount)
		}
		// known finding C05-F3: when the first validator cannot cover the selector's share the record holds the
		// still-missing amount instead of the amount taken; with a slashed validator the shares round trip loses
		// a unit that the record keeps
		ndAssertK(sum.Equal(rec.Total), "per-backer-record-sums-to-the-amount-taken", "C05-F3", ndOr(nd == 2, slashed))
	}
	// at most one unit less than requested (share conversions truncate)
	ndAssert(moved.LTE(fee) && moved.GTE(fee.Sub(math.NewInt(int64(2*nd)))), "amount-taken-is-the-fee-up-to-truncation")
}
