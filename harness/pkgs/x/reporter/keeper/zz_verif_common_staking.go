package keeper

import (
	"context"

	"github.com/tellor-io/layer/x/reporter/types"

	"cosmossdk.io/math"

	sdk "github.com/cosmos/cosmos-sdk/types"
	stakingtypes "github.com/cosmos/cosmos-sdk/x/staking/types"
)

// vStaking: a small model of x/staking as the reporter module sees it: validators (status, tokens, shares),
// delegations, validator-set iteration in descending-power order, max validators.
type vStaking struct {
	types.StakingKeeper
	vals    []stakingtypes.Validator
	dels    []stakingtypes.Delegation
	maxVals uint32
	bonded  math.Int
	// ledger side effects
	delegated     math.Int
	nDelegate     int
	lastSrc       stakingtypes.BondStatus
	lastSubtract  bool
	lastDelegator string
	unbondingTime int64
}

type vValSet struct {
	stakingtypes.ValidatorSet
	s *vStaking
}

func (s *vStaking) GetValidatorSet() stakingtypes.ValidatorSet { return vValSet{s: s} }

func (v vValSet) MaxValidators(context.Context) (uint32, error) { return v.s.maxVals, nil }

func (v vValSet) TotalBondedTokens(context.Context) (math.Int, error) { return v.s.bonded, nil }

// IterateBondedValidatorsByPower: bonded validators, in the order the harness listed them (the harness lists
// them by descending power).
func (v vValSet) IterateBondedValidatorsByPower(ctx context.Context, fn func(index int64, validator stakingtypes.ValidatorI) (stop bool)) error {
	i := int64(0)
	for _, val := range v.s.vals {
		if val.IsBonded() {
			if fn(i, val) {
				break
			}
			i++
		}
	}
	return nil
}

func (s *vStaking) GetValidator(ctx context.Context, addr sdk.ValAddress) (stakingtypes.Validator, error) {
	for _, v := range s.vals {
		if v.OperatorAddress == addr.String() {
			return v, nil
		}
	}
	return stakingtypes.Validator{}, stakingtypes.ErrNoValidatorFound
}

func (s *vStaking) GetDelegation(ctx context.Context, delAddr sdk.AccAddress, valAddr sdk.ValAddress) (stakingtypes.Delegation, error) {
	for _, d := range s.dels {
		if d.DelegatorAddress == delAddr.String() && d.ValidatorAddress == valAddr.String() {
			return d, nil
		}
	}
	return stakingtypes.Delegation{}, stakingtypes.ErrNoDelegation
}

func (s *vStaking) IterateDelegatorDelegations(ctx context.Context, delegator sdk.AccAddress, cb func(delegation stakingtypes.Delegation) (stop bool)) error {
	for _, d := range s.dels {
		if d.DelegatorAddress == delegator.String() {
			if cb(d) {
				break
			}
		}
	}
	return nil
}

func (s *vStaking) TotalBondedTokens(context.Context) (math.Int, error) { return s.bonded, nil }

// Delegate (subtractAccount=false): the caller has already moved / will move the coins between pools; the staking
// ledger credits the validator. Recorded for the pool-vs-ledger comparison.
func (s *vStaking) Delegate(ctx context.Context, delAddr sdk.AccAddress, bondAmt math.Int, tokenSrc stakingtypes.BondStatus, validator stakingtypes.Validator, subtractAccount bool) (math.LegacyDec, error) {
	s.delegated = s.delegated.Add(bondAmt)
	s.nDelegate++
	s.lastSrc = tokenSrc
	s.lastSubtract = subtractAccount
	s.lastDelegator = string(delAddr)
	return math.LegacyNewDecFromInt(bondAmt), nil
}
