package keeper

import (
	"context"
	"time"

	corestore "cosmossdk.io/core/store"

	"github.com/tellor-io/layer/x/reporter/types"

	"cosmossdk.io/math"

	sdk "github.com/cosmos/cosmos-sdk/types"
	stakingtypes "github.com/cosmos/cosmos-sdk/x/staking/types"
)

// vStaking: a small model of x/staking as the reporter module sees it: validators (status, tokens, shares),
// delegations, validator-set iteration in descending-power order, max validators.
type vStaking struct {
	types.StakingKeeper
	vals    []stakingtypes.Validator
	dels    []stakingtypes.Delegation
	maxVals uint32
	bonded  math.Int
	// ledger side effects
	delegated     math.Int
	nDelegate     int
	lastSrc       stakingtypes.BondStatus
	lastSubtract  bool
	lastDelegator string
	unbondingTime int64
	// pools: the bank model (pool-to-pool moves of Delegate) and the ghost ledger of what the staking records
	// say each pool must hold
	bank             *vBank
	ledgerBonded     math.Int
	ledgerNotBonded  math.Int
	unbonded         math.Int // tokens taken out of validators by Unbond
	nUnbond          int
	// unbonding delegations and redelegations (dispute escrow chases tokens through them)
	ubds       []stakingtypes.UnbondingDelegation
	reds       []stakingtypes.Redelegation
	ubdRemoved math.Int // balance removed from unbonding entries by Set/RemoveUnbondingDelegation
	// x/staking's Delegate writes back the validator record it is GIVEN (tokens + amount): a caller passing a record
	// that is not the validator's current one loses what was added in between
	staleArg bool
}

type vValSet struct {
	stakingtypes.ValidatorSet
	s *vStaking
}

func (s *vStaking) UnbondingTime(context.Context) (time.Duration, error) {
	return time.Duration(s.unbondingTime) * time.Second, nil
}

func (s *vStaking) GetValidatorSet() stakingtypes.ValidatorSet { return vValSet{s: s} }

func (v vValSet) MaxValidators(context.Context) (uint32, error) { return v.s.maxVals, nil }

func (v vValSet) TotalBondedTokens(context.Context) (math.Int, error) { return v.s.bonded, nil }

// IterateBondedValidatorsByPower: bonded validators, in the order the harness listed them (the harness lists
// them by descending power).
func (v vValSet) IterateBondedValidatorsByPower(ctx context.Context, fn func(index int64, validator stakingtypes.ValidatorI) (stop bool)) error {
	i := int64(0)
	for _, val := range v.s.vals {
		if val.IsBonded() {
			if fn(i, val) {
				break
			}
			i++
		}
	}
	return nil
}

func (s *vStaking) GetValidator(ctx context.Context, addr sdk.ValAddress) (stakingtypes.Validator, error) {
	for _, v := range s.vals {
		if v.OperatorAddress == addr.String() {
			return v, nil
		}
	}
	return stakingtypes.Validator{}, stakingtypes.ErrNoValidatorFound
}

func (s *vStaking) GetDelegation(ctx context.Context, delAddr sdk.AccAddress, valAddr sdk.ValAddress) (stakingtypes.Delegation, error) {
	for _, d := range s.dels {
		if d.DelegatorAddress == delAddr.String() && d.ValidatorAddress == valAddr.String() {
			return d, nil
		}
	}
	return stakingtypes.Delegation{}, stakingtypes.ErrNoDelegation
}

func (s *vStaking) IterateDelegatorDelegations(ctx context.Context, delegator sdk.AccAddress, cb func(delegation stakingtypes.Delegation) (stop bool)) error {
	for _, d := range s.dels {
		if d.DelegatorAddress == delegator.String() {
			if cb(d) {
				break
			}
		}
	}
	return nil
}

func (s *vStaking) TotalBondedTokens(context.Context) (math.Int, error) { return s.bonded, nil }

// Delegate (subtractAccount=false): the caller has already moved / will move the coins between pools; the staking
// ledger credits the validator. Recorded for the pool-vs-ledger comparison.
func (s *vStaking) Delegate(ctx context.Context, delAddr sdk.AccAddress, bondAmt math.Int, tokenSrc stakingtypes.BondStatus, validator stakingtypes.Validator, subtractAccount bool) (math.LegacyDec, error) {
	if s.bank != nil && !subtractAccount {
		// x/staking v0.50.9 keeper.Delegate, subtractAccount == false: the tokens are assumed to sit in the pool
		// matching tokenSrc already and are moved to the pool matching the validator's status
		srcNotBonded := tokenSrc == stakingtypes.Unbonded || tokenSrc == stakingtypes.Unbonding
		switch {
		case tokenSrc == stakingtypes.Bonded && validator.IsBonded():
		case srcNotBonded && !validator.IsBonded():
		case srcNotBonded && validator.IsBonded():
			if err := s.bank.SendCoinsFromModuleToModule(ctx, stakingtypes.NotBondedPoolName, stakingtypes.BondedPoolName, sdk.NewCoins(sdk.NewCoin("loya", bondAmt))); err != nil {
				return math.LegacyDec{}, err
			}
		case tokenSrc == stakingtypes.Bonded && !validator.IsBonded():
			if err := s.bank.SendCoinsFromModuleToModule(ctx, stakingtypes.BondedPoolName, stakingtypes.NotBondedPoolName, sdk.NewCoins(sdk.NewCoin("loya", bondAmt))); err != nil {
				return math.LegacyDec{}, err
			}
		default:
			panic("unknown token source bond status")
		}
		if validator.IsBonded() {
			s.ledgerBonded = s.ledgerBonded.Add(bondAmt)
		} else {
			s.ledgerNotBonded = s.ledgerNotBonded.Add(bondAmt)
		}
	}
	for vi, v := range s.vals {
		if v.OperatorAddress == validator.OperatorAddress {
			s.staleArg = ndOr(s.staleArg, !validator.Tokens.Equal(v.Tokens))
			s.vals[vi].Tokens = validator.Tokens.Add(bondAmt)
			s.vals[vi].DelegatorShares = validator.DelegatorShares.Add(math.LegacyNewDecFromInt(bondAmt))
		}
	}
	s.delegated = s.delegated.Add(bondAmt)
	s.nDelegate++
	s.lastSrc = tokenSrc
	s.lastSubtract = subtractAccount
	s.lastDelegator = string(delAddr)
	return math.LegacyNewDecFromInt(bondAmt), nil
}


// Unbond: x/staking's Unbond as far as the ledger is concerned: the delegation loses the shares, the validator
// loses RemoveDelShares' tokens (real SDK function); no coins move (the caller moves them).
func (s *vStaking) Unbond(ctx context.Context, delAddr sdk.AccAddress, valAddr sdk.ValAddress, shares math.LegacyDec) (math.Int, error) {
	for di, d := range s.dels {
		if d.DelegatorAddress == delAddr.String() && d.ValidatorAddress == valAddr.String() {
			if d.Shares.LT(shares) {
				return math.Int{}, stakingtypes.ErrNotEnoughDelegationShares
			}
			for vi, v := range s.vals {
				if v.OperatorAddress == valAddr.String() {
					nv, amt := v.RemoveDelShares(shares)
					s.vals[vi] = nv
					s.dels[di].Shares = d.Shares.Sub(shares)
					if v.IsBonded() {
						s.ledgerBonded = s.ledgerBonded.Sub(amt)
					} else {
						s.ledgerNotBonded = s.ledgerNotBonded.Sub(amt)
					}
					s.unbonded = s.unbonded.Add(amt)
					s.nUnbond++
					return amt, nil
				}
			}
			return math.Int{}, stakingtypes.ErrNoValidatorFound
		}
	}
	return math.Int{}, stakingtypes.ErrNoDelegatorForAddress
}

func ubdBalance(u stakingtypes.UnbondingDelegation) math.Int {
	t := math.ZeroInt()
	for _, e := range u.Entries {
		t = t.Add(e.Balance)
	}
	return t
}

func (s *vStaking) GetUnbondingDelegation(ctx context.Context, delAddr sdk.AccAddress, valAddr sdk.ValAddress) (stakingtypes.UnbondingDelegation, error) {
	for _, u := range s.ubds {
		if u.DelegatorAddress == delAddr.String() && u.ValidatorAddress == valAddr.String() {
			// a copy of the entries, as a store read would give
			c := u
			c.Entries = append([]stakingtypes.UnbondingDelegationEntry{}, u.Entries...)
			return c, nil
		}
	}
	return stakingtypes.UnbondingDelegation{}, stakingtypes.ErrNoUnbondingDelegation
}

// SetUnbondingDelegation / RemoveUnbondingDelegation: the ledger of unbonding balances changes by the difference.
func (s *vStaking) SetUnbondingDelegation(ctx context.Context, ubd stakingtypes.UnbondingDelegation) error {
	for i, u := range s.ubds {
		if u.DelegatorAddress == ubd.DelegatorAddress && u.ValidatorAddress == ubd.ValidatorAddress {
			diff := ubdBalance(u).Sub(ubdBalance(ubd))
			s.ubdRemoved = s.ubdRemoved.Add(diff)
			s.ledgerNotBonded = s.ledgerNotBonded.Sub(diff)
			s.ubds[i] = ubd
			return nil
		}
	}
	s.ledgerNotBonded = s.ledgerNotBonded.Add(ubdBalance(ubd))
	s.ubds = append(s.ubds, ubd)
	return nil
}

func (s *vStaking) RemoveUnbondingDelegation(ctx context.Context, ubd stakingtypes.UnbondingDelegation) error {
	for i, u := range s.ubds {
		if u.DelegatorAddress == ubd.DelegatorAddress && u.ValidatorAddress == ubd.ValidatorAddress {
			s.ubdRemoved = s.ubdRemoved.Add(ubdBalance(u))
			s.ledgerNotBonded = s.ledgerNotBonded.Sub(ubdBalance(u))
			s.ubds = append(s.ubds[:i:i], s.ubds[i+1:]...)
			return nil
		}
	}
	return nil
}

func (s *vStaking) GetRedelegationsFromSrcValidator(ctx context.Context, valAddr sdk.ValAddress) ([]stakingtypes.Redelegation, error) {
	var out []stakingtypes.Redelegation
	for _, r := range s.reds {
		if r.ValidatorSrcAddress == valAddr.String() {
			out = append(out, r)
		}
	}
	return out, nil
}

// vPowerIter: ValidatorsPowerStoreIterator: the validators' addresses in the order listed (descending power).
type vPowerIter struct {
	s *vStaking
	i int
}

func (s *vStaking) ValidatorsPowerStoreIterator(ctx context.Context) (corestore.Iterator, error) {
	return &vPowerIter{s: s}, nil
}
func (it *vPowerIter) Domain() (start, end []byte) { return nil, nil }
func (it *vPowerIter) Valid() bool                 { return it.i < len(it.s.vals) }
func (it *vPowerIter) Next()                       { it.i++ }
func (it *vPowerIter) Key() []byte                 { return nil }
func (it *vPowerIter) Value() []byte {
	a, err := sdk.ValAddressFromBech32(it.s.vals[it.i].OperatorAddress)
	if err != nil {
		panic(err)
	}
	return a
}
func (it *vPowerIter) Error() error { return nil }
func (it *vPowerIter) Close() error { return nil }

func newVStaking(bank *vBank) *vStaking {
	return &vStaking{bank: bank, delegated: math.ZeroInt(), bonded: math.OneInt(), ledgerBonded: math.ZeroInt(), ledgerNotBonded: math.ZeroInt(), unbonded: math.ZeroInt(), ubdRemoved: math.ZeroInt()}
}
