package keeper

import (
	"time"

	"github.com/tellor-io/layer/x/reporter/types"

	"cosmossdk.io/collections"
	"cosmossdk.io/math"

	sdk "github.com/cosmos/cosmos-sdk/types"
	stakingtypes "github.com/cosmos/cosmos-sdk/x/staking/types"
)

// c10World: reporters R1 (always) and R2 (maybe), another selector X (maybe, with R1 or R2), and the acting address S
// (no selection / selector of R1 / selector of R2) with 0-2 delegations to a bonded and an arbitrary-status validator.
type c10World struct {
	ctx           sdk.Context
	k             Keeper
	r1, r2, x, s  []byte
	hasR2         bool
	xWith, sWith  int // 0 none, 1 R1, 2 R2
	min1, min2    math.Int
	minTrb        math.Int
	cap           uint64
	bondedStake   math.Int // S's stake with bonded validators
	nDels         uint64
	sLockedBefore time.Time
}

func c10Setup(allowSSelected bool) c10World {
	w := c10World{r1: ndAddr("R1"), r2: ndAddr("R2"), x: ndAddr("X"), s: ndAddr("S")}
	all := [][]byte{w.r1, w.r2, w.x, w.s}
	for i := range all {
		for j := 0; j < i; j++ {
			ndAssume(string(all[i]) != string(all[j]))
		}
	}
	vals := []sdk.ValAddress{sdk.ValAddress(ndAddr("val0")), sdk.ValAddress(ndAddr("val1"))}
	ndAssume(string(vals[0]) != string(vals[1]))
	sk := &vStaking{bonded: math.NewInt(1), unbondingTime: 1814400}
	statuses := []stakingtypes.BondStatus{stakingtypes.Bonded, stakingtypes.Unbonding, stakingtypes.Unbonded}
	st1 := statuses[ndPick("val1status", 3)]
	sk.vals = append(sk.vals, stakingtypes.Validator{OperatorAddress: vals[0].String(), Status: stakingtypes.Bonded, Tokens: math.NewInt(5000000), DelegatorShares: math.LegacyNewDec(5000000)})
	sk.vals = append(sk.vals, stakingtypes.Validator{OperatorAddress: vals[1].String(), Status: st1, Tokens: math.NewInt(5000000), DelegatorShares: math.LegacyNewDec(5000000)})
	w.bondedStake = math.ZeroInt()
	for i := 0; i < 2; i++ {
		if ndBool(nm("hasDelegation", i)) {
			sh := ndBigInt(nm("delegated", i))
			ndAssume(sh.IsPositive())
			ndAssume(sh.LT(math.NewInt(1000000000000)))
			sk.dels = append(sk.dels, stakingtypes.Delegation{DelegatorAddress: sdk.AccAddress(w.s).String(), ValidatorAddress: vals[i].String(), Shares: math.LegacyNewDecFromInt(sh)})
			w.nDels++
			if i == 0 || st1 == stakingtypes.Bonded {
				w.bondedStake = w.bondedStake.Add(sh)
			}
		}
	}
	w.ctx, w.k = vRepKeeper(sk, nil)
	w.minTrb = ndBigInt("minTrb")
	ndAssume(w.minTrb.IsPositive())
	ndAssume(w.minTrb.LT(math.NewInt(1000000000000)))
	w.cap = uint64(1 + ndLen("maxSelectors", 2))
	must2(w.k.Params.Set(w.ctx, types.Params{MinCommissionRate: math.LegacyZeroDec(), MinTrb: w.minTrb, MaxSelectors: w.cap}))
	w.min1, w.min2 = ndBigInt("R1min"), ndBigInt("R2min")
	for _, m := range []math.Int{w.min1, w.min2} {
		ndAssume(m.GTE(w.minTrb))
		ndAssume(m.LT(math.NewInt(2000000000000)))
	}
	must2(w.k.Reporters.Set(w.ctx, w.r1, types.OracleReporter{MinTokensRequired: w.min1, CommissionRate: math.LegacyZeroDec()}))
	must2(w.k.Selectors.Set(w.ctx, w.r1, types.Selection{Reporter: w.r1, DelegationsCount: 1}))
	w.hasR2 = ndBool("R2exists")
	if w.hasR2 {
		must2(w.k.Reporters.Set(w.ctx, w.r2, types.OracleReporter{MinTokensRequired: w.min2, CommissionRate: math.LegacyZeroDec()}))
		must2(w.k.Selectors.Set(w.ctx, w.r2, types.Selection{Reporter: w.r2, DelegationsCount: 1}))
	}
	w.xWith = ndPick("XselectedWith", 3)
	if w.xWith == 2 && !w.hasR2 {
		ndAssume(false) // a selection always names an existing reporter
	}
	if w.xWith != 0 {
		must2(w.k.Selectors.Set(w.ctx, w.x, types.Selection{Reporter: [][]byte{nil, w.r1, w.r2}[w.xWith], DelegationsCount: 1}))
	}
	if allowSSelected {
		w.sWith = ndPick("SselectedWith", 3)
		if w.sWith == 2 && !w.hasR2 {
			ndAssume(false)
		}
		if w.sWith != 0 {
			w.sLockedBefore = ndTime("SlockedUntil")
			must2(w.k.Selectors.Set(w.ctx, w.s, types.Selection{Reporter: [][]byte{nil, w.r1, w.r2}[w.sWith], DelegationsCount: w.nDels, LockedUntilTime: w.sLockedBefore}))
		}
	}
	return w
}

// count: selectors currently with reporter which (1 or 2), from the real index
func (w c10World) count(which int) int {
	it, err := w.k.Selectors.Indexes.Reporter.MatchExact(w.ctx, [][]byte{nil, w.r1, w.r2}[which])
	must2(err)
	keys, err := it.FullKeys()
	must2(err)
	return len(keys)
}

// capHolds: no reporter has more selectors than the cap (R2 of the design: the inductive invariant)
func (w c10World) capHolds() bool {
	return uint64(w.count(1)) <= w.cap && (!w.hasR2 || uint64(w.count(2)) <= w.cap)
}

// VerifC10_select_reporter: SelectReporter by an address S, from any membership state within the cap.
// Accepted only if S has no selection yet, the chosen reporter exists and is below the cap, and S's BONDED stake
// meets the reporter's minimum; then S is that reporter's selector (only), and the cap still holds.
// Rejected => nothing changes.
func VerifC10_select_reporter() {
	w := c10Setup(true)
	ndAssume(w.capHolds())
	target := 1 + ndPick("target", 2)
	tAddr := [][]byte{nil, w.r1, w.r2}[target]
	before := w.count(target)
	_, err := NewMsgServerImpl(w.k).SelectReporter(w.ctx, &types.MsgSelectReporter{SelectorAddress: sdk.AccAddress(w.s).String(), ReporterAddress: sdk.AccAddress(tAddr).String()})
	sel, gerr := w.k.Selectors.Get(w.ctx, w.s)
	if err != nil {
		ndReach("rejected")
		if w.sWith == 0 {
			ndAssert(gerr != nil, "rejected-select-creates-no-selection")
		} else {
			ndAssert(gerr == nil && string(sel.Reporter) == string([][]byte{nil, w.r1, w.r2}[w.sWith]) && sel.LockedUntilTime.Equal(w.sLockedBefore), "rejected-select-keeps-the-existing-selection")
		}
		ndAssert(w.count(target) == before, "rejected-select-adds-no-selector")
		return
	}
	ndReach("accepted")
	ndAssert(w.sWith == 0, "only-an-address-without-a-selection-can-select")
	ndAssert(target == 1 || w.hasR2, "the-chosen-reporter-exists")
	ndAssert(uint64(before) < w.cap, "the-reporter-was-below-the-cap")
	ndAssert(w.bondedStake.GTE([]math.Int{w.min1, w.min1, w.min2}[target]), "bonded-stake-meets-the-reporter's-minimum")
	ndAssert(gerr == nil && string(sel.Reporter) == string(tAddr) && sel.DelegationsCount == w.nDels, "S-is-now-that-reporter's-selector")
	ndAssert(w.count(target) == before+1 && w.capHolds(), "cap-still-holds")
}

// VerifC10_create_reporter: CreateReporter by S: accepted only if S has no selection yet (is neither selector nor
// reporter), its BONDED stake is at least the module minimum and its own minimum is not below the module minimum;
// then S is a reporter and its own selector.
func VerifC10_create_reporter() {
	w := c10Setup(true)
	ndAssume(w.capHolds())
	ownMin := ndBigInt("ownMin")
	ndAssume(!ownMin.IsNegative())
	ndAssume(ownMin.LT(math.NewInt(2000000000000)))
	rate := math.LegacyNewDecWithPrec(int64(ndLen("commissionPercent", 2)*50), 2)
	_, err := NewMsgServerImpl(w.k).CreateReporter(w.ctx, &types.MsgCreateReporter{ReporterAddress: sdk.AccAddress(w.s).String(), CommissionRate: rate, MinTokensRequired: ownMin})
	sel, gerr := w.k.Selectors.Get(w.ctx, w.s)
	rep, rerr := w.k.Reporters.Get(w.ctx, w.s)
	if err != nil {
		ndReach("rejected")
		ndAssert(rerr != nil, "rejected-create-creates-no-reporter")
		if w.sWith == 0 {
			ndAssert(gerr != nil, "rejected-create-creates-no-selection")
		} else {
			ndAssert(gerr == nil && string(sel.Reporter) == string([][]byte{nil, w.r1, w.r2}[w.sWith]), "rejected-create-keeps-the-existing-selection")
		}
		return
	}
	ndReach("accepted")
	ndAssert(w.sWith == 0, "a-selector-cannot-become-a-reporter")
	ndAssert(w.bondedStake.GTE(w.minTrb), "bonded-stake-meets-the-module-minimum")
	ndAssert(ownMin.GTE(w.minTrb), "own-minimum-is-not-below-the-module-minimum")
	ndAssert(rerr == nil && rep.MinTokensRequired.Equal(ownMin) && rep.CommissionRate.Equal(rate) && !rep.Jailed, "reporter-record-as-requested")
	ndAssert(gerr == nil && string(sel.Reporter) == string(w.s) && sel.DelegationsCount == w.nDels, "the-new-reporter-is-its-own-selector")
}

// VerifC10_switch_reporter: SwitchReporter by selector S (not itself a reporter): accepted only if the new reporter
// exists, is below the cap and S's BONDED stake meets its minimum; then S belongs to the new reporter only, and is
// locked for the unbonding period from now iff its previous reporter has a report snapshot at or before this block.
func VerifC10_switch_reporter() {
	w := c10Setup(true)
	ndAssume(w.capHolds())
	target := 1 + ndPick("target", 2)
	tAddr := [][]byte{nil, w.r1, w.r2}[target]
	before := w.count(target)
	now := ndTime("now")
	h := ndInt64("height")
	ndAssume(h >= 1)
	ndAssume(h < 1<<40)
	ctx := w.ctx.WithBlockHeight(h).WithBlockTime(now)
	// the previous reporter's latest report snapshot: none, or at some block (before/at/after this one)
	prev := [][]byte{nil, w.r1, w.r2}[w.sWith]
	reported := ndBool("prevReporterReported")
	repBlock := ndUint64("reportBlock")
	ndAssume(repBlock < 1<<40)
	if reported && w.sWith != 0 {
		must2(w.k.Report.Set(ctx, collections.Join(ndHash("qid"), collections.Join(prev, repBlock)), types.DelegationsAmounts{Total: math.NewInt(1000000)}))
	}
	_, err := NewMsgServerImpl(w.k).SwitchReporter(ctx, &types.MsgSwitchReporter{SelectorAddress: sdk.AccAddress(w.s).String(), ReporterAddress: sdk.AccAddress(tAddr).String()})
	sel, gerr := w.k.Selectors.Get(w.ctx, w.s)
	if err != nil {
		ndReach("rejected")
		if w.sWith == 0 {
			ndAssert(gerr != nil, "rejected-switch-creates-no-selection")
		} else {
			ndAssert(gerr == nil && string(sel.Reporter) == string(prev) && sel.LockedUntilTime.Equal(w.sLockedBefore), "rejected-switch-keeps-the-selection")
		}
		return
	}
	ndReach("accepted")
	ndAssert(w.sWith != 0, "only-an-existing-selector-can-switch")
	ndAssert(target == 1 || w.hasR2, "the-new-reporter-exists")
	ndAssert(uint64(before) < w.cap, "the-new-reporter-was-below-the-cap")
	ndAssert(w.bondedStake.GTE([]math.Int{w.min1, w.min1, w.min2}[target]), "bonded-stake-meets-the-new-reporter's-minimum")
	ndAssert(gerr == nil && string(sel.Reporter) == string(tAddr), "S-belongs-to-the-new-reporter")
	ndAssert(w.capHolds(), "cap-still-holds")
	if gerr == nil {
		mustLock := reported && repBlock <= uint64(h)
		if mustLock {
			ndReach("locked")
			ndAssert(sel.LockedUntilTime.Equal(now.Add(1814400*time.Second)), "locked-for-the-unbonding-period-after-having-reported")
		} else {
			ndAssert(sel.LockedUntilTime.Equal(w.sLockedBefore), "lock-unchanged-when-the-previous-reporter-never-reported")
		}
	}
}

// VerifC10_jail: JailReporter / UnjailReporter / ReporterStake on one reporter: jailing sets the release time to
// now + duration and is refused for an already jailed reporter; release is possible only when jailed and only from
// the release time on, and changes nothing else; a jailed reporter's stake query fails (it cannot report).
func VerifC10_jail() {
	rep := ndAddr("reporter")
	sk := &vStaking{bonded: math.NewInt(1), maxVals: 100}
	ctx0, k := vRepKeeper(sk, nil)
	now := ndTime("now")
	ctx := ctx0.WithBlockTime(now)
	jailed := ndBool("jailed")
	until := ndTime("jailedUntil")
	min := ndBigInt("min")
	ndAssume(min.IsPositive())
	must2(k.Reporters.Set(ctx, rep, types.OracleReporter{MinTokensRequired: min, CommissionRate: math.LegacyZeroDec(), Jailed: jailed, JailedUntil: until}))
	must2(k.Selectors.Set(ctx, rep, types.Selection{Reporter: rep, DelegationsCount: 0}))
	switch ndPick("op", 3) {
	case 0:
		d := ndUint64("duration")
		ndAssume(d <= 1<<32)
		err := k.JailReporter(ctx, rep, d)
		r, _ := k.Reporters.Get(ctx, rep)
		if err != nil {
			ndReach("jail-refused")
			ndAssert(jailed && r.Jailed && r.JailedUntil.Equal(until), "only-an-already-jailed-reporter-is-refused-and-keeps-its-release-time")
			return
		}
		ndReach("jailed")
		ndAssert(!jailed && r.Jailed && r.JailedUntil.Equal(now.Add(time.Duration(d)*time.Second)), "jailed-until-now-plus-duration")
		ndAssert(r.MinTokensRequired.Equal(min), "jailing-changes-nothing-else")
		_, serr := k.ReporterStake(ctx, rep, ndHash("qid"))
		ndAssert(serr != nil, "a-jailed-reporter-cannot-report")
	case 1:
		_, err := NewMsgServerImpl(k).UnjailReporter(ctx, &types.MsgUnjailReporter{ReporterAddress: sdk.AccAddress(rep).String()})
		r, _ := k.Reporters.Get(ctx, rep)
		if err != nil {
			ndReach("unjail-refused")
			ndAssert(!jailed || now.Before(until), "release-is-refused-only-when-not-jailed-or-too-early")
			ndAssert(r.Jailed == jailed && r.JailedUntil.Equal(until), "refused-release-changes-nothing")
			return
		}
		ndReach("released")
		ndAssert(jailed && !now.Before(until), "released-only-when-jailed-and-the-time-has-passed")
		ndAssert(!r.Jailed && r.MinTokensRequired.Equal(min), "released-and-nothing-else-changed")
	default:
		_, serr := k.ReporterStake(ctx, rep, ndHash("qid"))
		if jailed {
			ndReach("stake-while-jailed")
			ndAssert(serr != nil, "a-jailed-reporter-cannot-report-even-after-its-time-until-released")
		} else {
			ndReach("stake-free")
		}
	}
}
