package keeper

import (
	"github.com/tellor-io/layer/x/reporter/types"

	"cosmossdk.io/collections"
	"cosmossdk.io/math"
)

func c09Origins() int {
	if ndTier() > 0 {
		return 3
	}
	return 2
}

// VerifC09_divvy: DivvyingTips splits a reporter's reward R among the token origins recorded for the report:
// every credit non-negative, sum within (n+1)*10^-18 of R, commission credited to the reporter exactly once.
func VerifC09_divvy() { c09Divvy(true) }

// VerifC09_divvy_anyrate: the same with every commission rate CreateReporter admits (anything <= 100, negative
// included): rates outside [0,1] make credits negative (known finding C09-F2).
func VerifC09_divvy_anyrate() { c09Divvy(false) }

func c09Divvy(fractionOnly bool) {
	bank := newVBank(false)
	ctx, k := vRepKeeper(nil, bank)
	reporter := ndAddr("reporter")
	qid := ndHash("qid")
	height := ndUint64("height")
	rate := ndDecRaw("rate")
	one := math.LegacyOneDec()
	// the admissible commission rates are whatever CreateReporter lets through: anything <= 100 (incl. negative)
	ndAssume(rate.LTE(math.LegacyNewDec(100)) && rate.GTE(math.LegacyNewDec(-100)))
	rateIsFraction := !rate.IsNegative() && rate.LTE(one)
	if fractionOnly {
		ndAssume(rateIsFraction)
	} else {
		ndAssume(!rateIsFraction)
	}
	reward := ndDecRaw("reward")
	ndAssume(reward.IsPositive() && reward.LTE(math.LegacyNewDec(1000000000000000)))
	if err := k.Reporters.Set(ctx, reporter, types.OracleReporter{CommissionRate: rate, MinTokensRequired: math.OneInt()}); err != nil {
		panic(err)
	}
	maxN := c09Origins()
	if !fractionOnly {
		maxN = 1
	}
	n := 1 + ndLen("norigins", maxN-1)
	origins := make([]*types.TokenOriginInfo, n)
	total := math.ZeroInt()
	ownerIsReporter := make([]bool, n)
	nOwned := 0
	for i := 0; i < n; i++ {
		amt := ndBigInt(nm("amt", i))
		ndAssume(amt.IsPositive() && amt.LT(math.NewInt(1000000000000000)))
		var del []byte
		// selector i is the reporter itself, or a distinct selector (possibly the same as an earlier one)
		switch ndPick(nm("who", i), 2) {
		case 0:
			del = reporter
			ownerIsReporter[i] = true
			nOwned++
		default:
			del = ndAddr(nm("sel", i))
			ndAssume(string(del) != string(reporter))
		}
		origins[i] = &types.TokenOriginInfo{DelegatorAddress: del, ValidatorAddress: ndAddr(nm("val", i)), Amount: amt}
		total = total.Add(amt)
	}
	if err := k.Report.Set(ctx, collections.Join(qid, collections.Join(reporter, height)), types.DelegationsAmounts{TokenOrigins: origins, Total: total}); err != nil {
		panic(err)
	}
	err := k.DivvyingTips(ctx, reporter, reward, qid, height)
	ndAssert(err == nil, "no-error")
	if err != nil {
		return
	}
	ndReach("paid")
	// credits: all stores start empty, so the stored tip of a selector IS its credit
	sum := math.LegacyZeroDec()
	seen := map[string]bool{}
	allNonNeg := true
	for i := 0; i < n; i++ {
		key := string(origins[i].DelegatorAddress)
		if seen[key] {
			continue
		}
		seen[key] = true
		tip, gerr := k.SelectorTips.Get(ctx, origins[i].DelegatorAddress)
		ndAssert(gerr == nil, "credited-selector-has-a-tip-record")
		allNonNeg = ndAnd(allNonNeg, !tip.IsNegative())
		sum = sum.Add(tip)
	}
	if !seen[string(reporter)] {
		// the reporter's own stake did not back this report: it is still credited its commission, exactly once
		repTip := math.LegacyZeroDec()
		if tip, gerr := k.SelectorTips.Get(ctx, reporter); gerr == nil {
			allNonNeg = ndAnd(allNonNeg, !tip.IsNegative())
			sum = sum.Add(tip)
			repTip = tip
		}
		if fractionOnly {
			commission := reward.Mul(rate)
			ndAssert(repTip.Sub(commission).Abs().LTE(math.LegacyNewDecWithPrec(2, 18)), "reporter-without-own-stake-is-credited-exactly-its-commission")
		}
	}
	// in the any-rate harness every path lies in the region of known finding C09-F2 (rate outside [0,1])
	ndAssertK(allNonNeg, "every-credit-non-negative", "C09-F2", !fractionOnly)
	// |sum - R| <= (n+1) ulp  (one rounding per Mul/Quo per origin plus the commission product)
	diff := sum.Sub(reward).Abs()
	tol := math.LegacyNewDecWithPrec(int64(2*n+1), 18)
	ndAssert(diff.LTE(tol), "credits-sum-to-the-reward-within-rounding")
	ndAssert(bank.nCalls == 0, "divvying-moves-no-coins")
	if nOwned == 0 {
		ndReach("reporter-owns-no-origin")
	}
	if nOwned >= 2 {
		ndReach("reporter-owns-several-origins")
	}
}
