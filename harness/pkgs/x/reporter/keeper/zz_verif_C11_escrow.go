package keeper

import (
	"github.com/tellor-io/layer/x/reporter/types"

	"cosmossdk.io/collections"
	"cosmossdk.io/math"

	sdk "github.com/cosmos/cosmos-sdk/types"
	stakingtypes "github.com/cosmos/cosmos-sdk/x/staking/types"
)

// c11Abs: |x|
func c11Abs(x math.Int) math.Int {
	return ndIteBig(x.IsNegative(), x.Neg(), x)
}

// VerifC11_escrow: EscrowReporterStake takes the category's share of a report's stake from the report's backers
// (C11: exactly the amount, each backer in proportion to their contribution at report time to within one unit,
// following tokens that are unbonding or were redelegated; recorded per backer. C05: what leaves the staking
// ledger is what leaves the pools, and the per-backer record sums to it).
//
// State: a stored report snapshot with n token origins (distinct selectors, two bonded validators, exchange rate 1)
// whose amounts add up to power*10^6; the staking history since the report is one of
//   scenario 0: every backing delegation still holds at least its snapshot amount,
//   scenario 1: backer 0 has undelegated part of the stake: the rest sits in an unbonding delegation (1-2 entries),
//   scenario 2: backer 0 has redelegated all or part of the stake to another validator.
func VerifC11_escrow_untouched()   { c11Escrow(0) }
func VerifC11_escrow_unbonding()   { c11Escrow(1) }
func VerifC11_escrow_redelegated() { c11Escrow(2) }

func c11Escrow(scenario int) {
	bank := newVBank(false)
	sk := newVStaking(bank)
	rep := ndAddr("reporter")
	// one validator per backer (each validator's tokens are touched once: no symbolic exchange rate), plus the
	// destination of the redelegation
	vaddrs := make([]sdk.ValAddress, 4)
	for i := range vaddrs {
		vaddrs[i] = sdk.ValAddress([]byte{byte('A' + i), 'v', 'a', 'l', 'i', 'd', 'a', 't', 'o', 'r', '_', '_', '_', '_', '_', '_', '_', '_', '_', '_'})
	}
	for i := 0; i < 4; i++ {
		sk.vals = append(sk.vals, stakingtypes.Validator{OperatorAddress: vaddrs[i].String(), Status: stakingtypes.Bonded, Tokens: math.NewInt(50000000000), DelegatorShares: math.LegacyNewDec(50000000000)})
	}
	n := 2 + ndLen("norigins", 1)
	// report power from a grid (the divisor of the apportioning); category fixes the percentage
	powers := []int64{7, 1000}
	if ndTier() >= 1 {
		powers = []int64{7, 1000, 1, 333}
	}
	power := powers[ndPick("power", len(powers))]
	total := math.NewInt(power * 1000000)
	cat := ndPick("category", 3)
	amt := total
	switch cat {
	case 0:
		amt = total.QuoRaw(100)
	case 1:
		amt = total.QuoRaw(20)
	}

	origins := make([]*types.TokenOriginInfo, n)
	dels := make([]sdk.AccAddress, n)
	sum := math.ZeroInt()
	for i := 0; i < n; i++ {
		dels[i] = sdk.AccAddress([]byte{byte('a' + i), 's', 'e', 'l', 'e', 'c', 't', 'o', 'r', '_', '_', '_', '_', '_', '_', '_', '_', '_', '_', '_'})
		a := ndBigInt(nm("amount", i))
		ndAssume(a.IsPositive())
		ndAssume(a.LTE(total))
		sum = sum.Add(a)
		origins[i] = &types.TokenOriginInfo{DelegatorAddress: dels[i], ValidatorAddress: vaddrs[i], Amount: a}
	}
	// the snapshot's amounts are the stake that backed the report: power * 10^6
	ndAssume(sum.Equal(total))

	before := make([]math.Int, n) // tokens staked or unbonding per backer before the call
	for i := 0; i < n; i++ {
		a := origins[i].Amount
		extra := ndBigInt(nm("extra", i)) // delegated since the report
		ndAssume(!extra.IsNegative())
		ndAssume(extra.LT(math.NewInt(1000000000)))
		switch {
		case i == 0 && scenario == 1:
			// part still delegated, the rest in 1-2 unbonding entries (all of it still there)
			kept := ndBigInt("kept")
			ndAssume(!kept.IsNegative())
			ndAssume(kept.LT(a))
			if kept.IsPositive() {
				sk.dels = append(sk.dels, stakingtypes.Delegation{DelegatorAddress: dels[i].String(), ValidatorAddress: vaddrs[0].String(), Shares: math.LegacyNewDecFromInt(kept)})
			}
			// the (first) entry may have been slashed for a validator infraction: balance below its initial balance
			slack := ndBigInt("slashedFromEntry")
			ndAssume(!slack.IsNegative())
			ndAssume(slack.LT(math.NewInt(1000000000)))
			ne := 1 + ndLen("nentries", 1)
			rest := a.Sub(kept)
			var entries []stakingtypes.UnbondingDelegationEntry
			if ne == 1 {
				entries = []stakingtypes.UnbondingDelegationEntry{{Balance: rest.Add(extra), InitialBalance: rest.Add(extra).Add(slack)}}
			} else {
				first := ndBigInt("entry0")
				ndAssume(first.IsPositive())
				ndAssume(first.LT(rest))
				entries = []stakingtypes.UnbondingDelegationEntry{{Balance: first, InitialBalance: first.Add(slack)}, {Balance: rest.Sub(first).Add(extra), InitialBalance: rest.Sub(first).Add(extra)}}
			}
			sk.ubds = append(sk.ubds, stakingtypes.UnbondingDelegation{DelegatorAddress: dels[i].String(), ValidatorAddress: vaddrs[0].String(), Entries: entries})
			sk.ledgerNotBonded = sk.ledgerNotBonded.Add(rest.Add(extra))
			before[i] = a.Add(extra)
		case i == 0 && scenario == 2:
			// part (possibly nothing) still with the source validator, the rest redelegated
			keptSrc := ndBigInt("keptAtSource")
			ndAssume(!keptSrc.IsNegative())
			ndAssume(keptSrc.LT(a))
			if keptSrc.IsPositive() {
				sk.dels = append(sk.dels, stakingtypes.Delegation{DelegatorAddress: dels[i].String(), ValidatorAddress: vaddrs[0].String(), Shares: math.LegacyNewDecFromInt(keptSrc)})
			}
			sk.reds = append(sk.reds, stakingtypes.Redelegation{DelegatorAddress: dels[i].String(), ValidatorSrcAddress: vaddrs[0].String(), ValidatorDstAddress: vaddrs[3].String()})
			sk.dels = append(sk.dels, stakingtypes.Delegation{DelegatorAddress: dels[i].String(), ValidatorAddress: vaddrs[3].String(), Shares: math.LegacyNewDecFromInt(a.Sub(keptSrc).Add(extra))})
			before[i] = a.Add(extra)
		default:
			sk.dels = append(sk.dels, stakingtypes.Delegation{DelegatorAddress: dels[i].String(), ValidatorAddress: vaddrs[i].String(), Shares: math.LegacyNewDecFromInt(a.Add(extra))})
			before[i] = a.Add(extra)
		}
	}
	ctx, k := vRepKeeper(sk, bank)
	qid := ndHash("queryid")
	height := ndUint64("height")
	must2(k.Report.Set(ctx, collections.Join(qid, collections.Join([]byte(rep), height)), types.DelegationsAmounts{TokenOrigins: origins, Total: total}))
	pool0 := math.NewInt(200000000000)
	bank.set(vbMod(stakingtypes.BondedPoolName), pool0)
	bank.set(vbMod(stakingtypes.NotBondedPoolName), pool0)
	hash := ndHash("hash")

	err := k.EscrowReporterStake(ctx, rep, uint64(power), height, amt, qid, hash)
	if err != nil {
		ndReach("error")
		// all the stake is there in every scenario: the escrow must not fail
		ndAssert(false, "escrow-succeeds-when-the-stake-is-there")
		return
	}
	ndReach("escrowed")
	moved := bank.modBal("dispute")
	ndAssert(moved.Equal(amt), "escrow-receives-exactly-the-category-share")
	ndAssert(sk.unbonded.Add(sk.ubdRemoved).Equal(moved), "what-leaves-the-ledger-is-what-leaves-the-pools")
	fromBonded := pool0.Sub(bank.modBal(stakingtypes.BondedPoolName))
	fromNotBonded := pool0.Sub(bank.modBal(stakingtypes.NotBondedPoolName))
	ndAssert(ndAnd(fromBonded.Equal(sk.unbonded), fromNotBonded.Equal(sk.ubdRemoved)), "each-pool-loses-what-its-side-of-the-ledger-loses")
	rec, rerr := k.DisputedDelegationAmounts.Get(ctx, hash)
	if rerr != nil {
		ndAssert(false, "record-exists")
		return
	}
	ndAssert(rec.Total.Equal(amt), "recorded-total-is-the-amount")
	rsum := math.ZeroInt()
	for _, o := range rec.TokenOrigins {
		rsum = rsum.Add(o.Amount)
		ndAssert(o.Amount.IsPositive(), "recorded-entries-are-positive")
	}
	ndAssert(rsum.Equal(amt), "per-backer-record-sums-to-the-amount")
	// each backer's loss is a_i/total of the amount to within one unit: |loss_i*total - a_i*amt| <= total
	for i := 0; i < n; i++ {
		after := math.ZeroInt()
		for _, d := range sk.dels {
			if d.DelegatorAddress == dels[i].String() {
				after = after.Add(d.Shares.TruncateInt())
			}
		}
		for _, u := range sk.ubds {
			if u.DelegatorAddress == dels[i].String() {
				after = after.Add(ubdBalance(u))
			}
		}
		loss := before[i].Sub(after)
		dev := c11Abs(loss.Mul(total).Sub(origins[i].Amount.Mul(amt)))
		ndAssert(dev.LTE(total), "each-backer-loses-their-proportion-to-within-one-unit")
		// and the record names this backer with that loss
		recd := math.ZeroInt()
		for _, o := range rec.TokenOrigins {
			if string(o.DelegatorAddress) == string(dels[i]) {
				recd = recd.Add(o.Amount)
			}
		}
		ndAssert(recd.Equal(loss), "record-per-backer-is-what-that-backer-lost")
	}
}

// VerifC11_escrow_unreported: EscrowReporterStake for a report the reporter never made - no stake snapshot under
// exactly (query id, reporter, block) although the reporter has snapshots of other reports (another query, or
// another block, earlier or later) - fails and takes nothing.
func VerifC11_escrow_unreported() {
	bank := newVBank(false)
	sk := newVStaking(bank)
	rep := ndAddr("reporter")
	val := sdk.ValAddress(ndAddr("val"))
	sk.vals = append(sk.vals, stakingtypes.Validator{OperatorAddress: val.String(), Status: stakingtypes.Bonded, Tokens: math.NewInt(50000000000), DelegatorShares: math.LegacyNewDec(50000000000)})
	sk.dels = append(sk.dels, stakingtypes.Delegation{DelegatorAddress: sdk.AccAddress(rep).String(), ValidatorAddress: val.String(), Shares: math.LegacyNewDec(7000000)})
	ctx, k := vRepKeeper(sk, bank)
	qid, otherQid := ndHash("queryid"), ndHash("otherQueryid")
	h, otherH := ndUint64("height"), ndUint64("otherHeight")
	ndAssume(h < 1<<40)
	ndAssume(otherH < 1<<40)
	// the real report differs from the disputed one in the query or in the block (or both)
	ndAssume(ndOr(string(qid) != string(otherQid), h != otherH))
	origins := []*types.TokenOriginInfo{{DelegatorAddress: rep, ValidatorAddress: val, Amount: math.NewInt(7000000)}}
	must2(k.Report.Set(ctx, collections.Join(otherQid, collections.Join([]byte(rep), otherH)), types.DelegationsAmounts{TokenOrigins: origins, Total: math.NewInt(7000000)}))
	bank.set(vbMod(stakingtypes.BondedPoolName), math.NewInt(50000000000))
	err := k.EscrowReporterStake(ctx, rep, 7, h, math.NewInt(70000), qid, ndHash("hash"))
	ndReach("called")
	ndAssert(err != nil, "a-report-that-was-never-made-cannot-be-slashed")
	ndAssert(bank.nCalls == 0 && sk.nUnbond == 0, "nothing-is-taken-for-a-report-that-was-never-made")
	_, rerr := k.DisputedDelegationAmounts.Get(ctx, ndHash("hash"))
	ndAssert(rerr != nil, "no-record-for-a-report-that-was-never-made")
}
