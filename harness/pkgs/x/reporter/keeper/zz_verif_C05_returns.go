package keeper

import (
	"github.com/tellor-io/layer/x/reporter/types"

	"cosmossdk.io/math"

	sdk "github.com/cosmos/cosmos-sdk/types"
	stakingtypes "github.com/cosmos/cosmos-sdk/x/staking/types"
)

func c05Origins() int {
	if ndTier() > 0 {
		return 3
	}
	return 2
}

// c05Vals: two validators, the first listed first by power. Statuses arbitrary.
func c05Vals(sk *vStaking) ([]sdk.ValAddress, []bool) {
	addrs := []sdk.ValAddress{sdk.ValAddress(ndAddr("val0")), sdk.ValAddress(ndAddr("val1"))}
	ndAssume(string(addrs[0]) != string(addrs[1]))
	bonded := make([]bool, 2)
	sts := []stakingtypes.BondStatus{stakingtypes.Bonded, stakingtypes.Unbonding, stakingtypes.Unbonded}
	for i := 0; i < 2; i++ {
		st := sts[ndPick(nm("status", i), 3)]
		bonded[i] = st == stakingtypes.Bonded
		sk.vals = append(sk.vals, stakingtypes.Validator{OperatorAddress: addrs[i].String(), Status: st, Tokens: math.NewInt(5000000), DelegatorShares: math.LegacyNewDec(5000000)})
	}
	return addrs, bonded
}

// VerifC05_fee_refund: FeeRefund puts a fee that was paid from stake back: the dispute module sends `amt` into the
// bonded pool, the ledger (bonded validators) is credited with the selectors' shares: never more than the pool
// received, and less by at most one unit per returned entry; always into a bonded validator.
func VerifC05_fee_refund() {
	bank := newVBank(false)
	sk := newVStaking(bank)
	addrs, bonded := c05Vals(sk)
	ndAssume(bonded[0] || bonded[1]) // a bonded validator always exists
	ctx, k := vRepKeeper(sk, bank)
	hash := ndHash("hash")
	n := 1 + ndLen("n", c05Origins()-1)
	origins := make([]*types.TokenOriginInfo, n)
	total := math.ZeroInt()
	// the tracked amounts come from a small grid (so that share = amount * refund / total is linear in the symbolic
	// refund); the refund itself is any amount up to the total
	grid := [][]int64{{1, 1, 1}, {1, 2, 4}, {3, 7, 11}, {333333, 666670, 5}}
	g := grid[ndPick("amounts", len(grid))]
	for i := 0; i < n; i++ {
		a := math.NewInt(g[i])
		origins[i] = &types.TokenOriginInfo{DelegatorAddress: ndAddr(nm("selector", i)), ValidatorAddress: addrs[ndPick(nm("val", i), 2)], Amount: a}
		total = total.Add(a)
	}
	must2(k.FeePaidFromStake.Set(ctx, hash, types.DelegationsAmounts{TokenOrigins: origins, Total: total}))
	amt := ndBigInt("refund")
	ndAssume(amt.IsPositive() && amt.LTE(total.MulRaw(1000)))
	// what the dispute module does around the call (ReturnFeetoStake)
	bank.set(vbMod("dispute"), amt)
	err := k.FeeRefund(ctx, hash, amt)
	ndAssert(err == nil, "no-error")
	if err != nil {
		return
	}
	must2(bank.SendCoinsFromModuleToModule(ctx, "dispute", stakingtypes.BondedPoolName, sdk.NewCoins(sdk.NewCoin("loya", amt))))
	ndReach("refunded")
	ndAssert(sk.ledgerNotBonded.IsZero(), "refund-goes-to-bonded-validators-only")
	ndAssert(bank.modBal(stakingtypes.BondedPoolName).GTE(sk.ledgerBonded), "bonded-pool-covers-what-the-ledger-was-credited")
	ndAssert(bank.modBal(stakingtypes.BondedPoolName).Sub(sk.ledgerBonded).LT(math.NewInt(int64(n))), "at-most-one-unit-per-returned-entry-stays-in-the-pool")
	ndAssert(bank.modBal(stakingtypes.NotBondedPoolName).IsZero(), "not-bonded-pool-untouched")
	_, gerr := k.FeePaidFromStake.Get(ctx, hash)
	ndAssert(gerr != nil, "tracking-record-removed")
}

// VerifC05_return_slashed: ReturnSlashedTokens (dispute invalid / reporter won) puts the escrowed stake back: the
// dispute module sends the amount into the bonded pool; each pool must hold at least what the ledger says after the
// staking module's own pool moves. Known finding C05-F2: an origin whose validator is no longer bonded is credited
// on the not-bonded side while its coins were sent to the bonded pool.
func VerifC05_return_slashed() {
	bank := newVBank(false)
	sk := newVStaking(bank)
	addrs, bonded := c05Vals(sk)
	ctx, k := vRepKeeper(sk, bank)
	hash := ndHash("hash")
	n := 1 + ndLen("n", c05Origins()-1)
	origins := make([]*types.TokenOriginInfo, n)
	total := math.ZeroInt()
	anyNotBonded, anyRemoved := false, false
	removed := sdk.ValAddress(ndAddr("removedValidator"))
	ndAssume(string(removed) != string(addrs[0]))
	ndAssume(string(removed) != string(addrs[1]))
	for i := 0; i < n; i++ {
		a := ndBigInt(nm("slashed", i))
		ndAssume(a.IsPositive() && a.LT(math.NewInt(1000000000)))
		// the validator the stake was taken from: one of the two that exist, or one removed since (the stake then
		// goes to the first bonded validator)
		vi := ndPick(nm("val", i), 3)
		valAddr := removed
		if vi < 2 {
			valAddr = addrs[vi]
			anyNotBonded = anyNotBonded || !bonded[vi]
		} else {
			anyRemoved = true
		}
		origins[i] = &types.TokenOriginInfo{DelegatorAddress: ndAddr(nm("selector", i)), ValidatorAddress: valAddr, Amount: a}
		total = total.Add(a)
	}
	must2(k.DisputedDelegationAmounts.Set(ctx, hash, types.DelegationsAmounts{TokenOrigins: origins, Total: total}))
	bank.set(vbMod("dispute"), total)
	// a transaction-time panic would be recovered, but this runs in the dispute BeginBlocker
	if anyRemoved {
		ndAssume(bonded[0] || bonded[1]) // a bonded validator always exists
	}
	err := k.ReturnSlashedTokens(ctx, total, hash)
	ndAssert(err == nil, "no-error")
	if err != nil {
		return
	}
	ndAssert(!sk.staleArg, "every-delegation-is-made-on-the-validator's-current-record")
	must2(bank.SendCoinsFromModuleToModule(ctx, "dispute", stakingtypes.BondedPoolName, sdk.NewCoins(sdk.NewCoin("loya", total))))
	ndReach("returned")
	ndAssert(sk.ledgerBonded.Add(sk.ledgerNotBonded).Equal(total), "ledger-credited-with-exactly-the-escrowed-stake")
	ndAssertK(bank.modBal(stakingtypes.BondedPoolName).GTE(sk.ledgerBonded) && bank.modBal(stakingtypes.NotBondedPoolName).GTE(sk.ledgerNotBonded), "each-pool-covers-its-side-of-the-ledger", "C05-F2", anyNotBonded)
	_, gerr := k.DisputedDelegationAmounts.Get(ctx, hash)
	ndAssert(gerr != nil, "snapshot-removed")
}
