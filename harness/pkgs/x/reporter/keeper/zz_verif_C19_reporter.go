package keeper

import (
	"github.com/tellor-io/layer/x/reporter/types"

	"cosmossdk.io/math"

	sdk "github.com/cosmos/cosmos-sdk/types"
	stakingtypes "github.com/cosmos/cosmos-sdk/x/staking/types"
)

// VerifC19_reporter_params: UpdateParams is rejected unless sent by the governance authority.
func VerifC19_reporter_params() {
	ctx, k := vRepKeeper(&vStaking{}, nil)
	old := types.Params{MinCommissionRate: math.LegacyZeroDec(), MinTrb: math.NewInt(1000000), MaxSelectors: 100}
	must2(k.Params.Set(ctx, old))
	signer := ndString("signer")
	asAuthority := ndBool("asAuthority")
	if asAuthority {
		signer = k.GetAuthority()
	} else {
		ndAssume(signer != k.GetAuthority())
	}
	_, err := NewMsgServerImpl(k).UpdateParams(ctx, &types.MsgUpdateParams{Authority: signer, Params: types.Params{MinCommissionRate: math.LegacyZeroDec(), MinTrb: math.NewInt(1), MaxSelectors: 1}})
	p, _ := k.Params.Get(ctx)
	if err == nil {
		ndReach("accepted")
		ndAssert(asAuthority, "only-the-governance-authority")
	}
	if !asAuthority {
		ndReach("non-authority")
		ndAssert(err != nil && p.MaxSelectors == 100 && p.MinTrb.Equal(math.NewInt(1000000)), "non-authority-is-rejected-and-changes-nothing")
	}
}

// VerifC19_remove_selector: anybody may remove a selector, but only one whose bonded stake is below its reporter's
// minimum and only while that reporter is over the selector cap; otherwise somebody else's selection is untouched.
func VerifC19_remove_selector() {
	rep := ndAddr("reporter")
	sel := ndAddr("selector")
	other := ndAddr("otherSelector")
	ndAssume(string(rep) != string(sel) && string(rep) != string(other) && string(sel) != string(other))
	vals := []sdk.ValAddress{sdk.ValAddress(ndAddr("val0")), sdk.ValAddress(ndAddr("val1"))}
	ndAssume(string(vals[0]) != string(vals[1]))
	sk := &vStaking{bonded: math.NewInt(1)}
	statuses := []stakingtypes.BondStatus{stakingtypes.Bonded, stakingtypes.Unbonded}
	bonded := make([]bool, 2)
	tokens := make([]math.Int, 2)
	for i := 0; i < 2; i++ {
		st := statuses[ndPick(nm("status", i), 2)]
		bonded[i] = st == stakingtypes.Bonded
		sk.vals = append(sk.vals, stakingtypes.Validator{OperatorAddress: vals[i].String(), Status: st, Tokens: math.NewInt(5000000), DelegatorShares: math.LegacyNewDec(5000000)})
		tokens[i] = ndBigInt(nm("delegated", i))
		ndAssume(tokens[i].IsPositive() && tokens[i].LT(math.NewInt(1000000000)))
		sk.dels = append(sk.dels, stakingtypes.Delegation{DelegatorAddress: sdk.AccAddress(sel).String(), ValidatorAddress: vals[i].String(), Shares: math.LegacyNewDecFromInt(tokens[i])})
	}
	ctx, k := vRepKeeper(sk, nil)
	minReq := ndBigInt("reporterMin")
	ndAssume(minReq.IsPositive() && minReq.LT(math.NewInt(2000000000)))
	must2(k.Reporters.Set(ctx, rep, types.OracleReporter{MinTokensRequired: minReq, CommissionRate: math.LegacyZeroDec()}))
	must2(k.Selectors.Set(ctx, rep, types.Selection{Reporter: rep, DelegationsCount: 1}))
	must2(k.Selectors.Set(ctx, sel, types.Selection{Reporter: rep, DelegationsCount: 2}))
	nSel := 2
	if ndBool("thirdSelector") {
		must2(k.Selectors.Set(ctx, other, types.Selection{Reporter: rep, DelegationsCount: 1}))
		nSel = 3
	}
	maxSel := uint64(1 + ndLen("maxSelectors", 2))
	must2(k.Params.Set(ctx, types.Params{MinCommissionRate: math.LegacyZeroDec(), MinTrb: math.NewInt(1), MaxSelectors: maxSel}))
	// the message is signed by a third party
	_, err := NewMsgServerImpl(k).RemoveSelector(ctx, &types.MsgRemoveSelector{AnyAddress: sdk.AccAddress(other).String(), SelectorAddress: sdk.AccAddress(sel).String()})
	_, gerr := k.Selectors.Get(ctx, sel)
	bondedStake := math.ZeroInt()
	for i := 0; i < 2; i++ {
		if bonded[i] {
			bondedStake = bondedStake.Add(tokens[i])
		}
	}
	if err == nil {
		ndReach("removed")
		ndAssert(gerr != nil, "selector-record-removed")
		ndAssert(bondedStake.LT(minReq), "only-a-selector-below-its-reporters-minimum")
		ndAssert(uint64(nSel) > maxSel, "only-while-the-reporter-is-over-the-selector-cap")
	} else {
		ndReach("kept")
		ndAssert(gerr == nil, "rejected-removal-keeps-the-selection")
	}
}
