package keeper

import (
	"github.com/tellor-io/layer/x/reporter/types"

	"cosmossdk.io/math"

	sdk "github.com/cosmos/cosmos-sdk/types"
	stakingtypes "github.com/cosmos/cosmos-sdk/x/staking/types"
)

// VerifC04_withdraw_tip: WithdrawTip moves exactly the whole-token part of a selector's credit from the tips escrow
// pool into the bonded pool and into the staking ledger (same amount on both sides), keeps the fractional part as
// the selector's credit, and never pays more than the credit.
func VerifC04_withdraw_tip() {
	bank := newVBank(false)
	sk := &vStaking{delegated: math.ZeroInt(), bonded: math.NewInt(1)}
	val := sdk.ValAddress(ndAddr("val"))
	st := []stakingtypes.BondStatus{stakingtypes.Bonded, stakingtypes.Unbonding, stakingtypes.Unbonded}[ndPick("status", 3)]
	sk.vals = []stakingtypes.Validator{{OperatorAddress: val.String(), Status: st, Tokens: math.NewInt(1000), DelegatorShares: math.LegacyNewDec(1000)}}
	ctx, k := vRepKeeper(sk, bank)
	sel := ndByteSlice("selector", 20)
	credit := ndDecRaw("credit")
	ndAssume(!credit.IsNegative() && credit.LT(math.LegacyNewDec(1000000000000000)))
	hasCredit := ndBool("hasCredit")
	if hasCredit {
		must2(k.SelectorTips.Set(ctx, sel, credit))
	}
	// invariant R4: the escrow pool covers the whole-token part of the credits
	pool := ndBigInt("escrowPool")
	ndAssume(pool.GTE(credit.TruncateInt()) && pool.LT(math.NewIntWithDecimal(1, 30)))
	bank.set(vbMod("tips_escrow_pool"), pool)
	_, err := NewMsgServerImpl(k).WithdrawTip(ctx, &types.MsgWithdrawTip{SelectorAddress: sdk.AccAddress(sel).String(), ValidatorAddress: val.String()})
	if err != nil {
		ndReach("rejected")
		ndAssert(bank.nCalls == 0 && sk.nDelegate == 0, "rejected-withdrawal-moves-nothing")
		return
	}
	ndReach("withdrawn")
	whole := credit.TruncateInt()
	ndAssert(hasCredit && whole.IsPositive(), "only-a-selector-with-at-least-one-whole-token-of-credit")
	ndAssert(st == stakingtypes.Bonded, "only-into-a-bonded-validator")
	ndAssert(sk.nDelegate == 1 && sk.delegated.Equal(whole) && sk.lastDelegator == string(sel) && !sk.lastSubtract && sk.lastSrc == stakingtypes.Bonded, "staking-ledger-credited-with-the-whole-token-part-for-the-selector")
	ndAssert(bank.modBal("bonded_tokens_pool").Equal(whole) && bank.modBal("tips_escrow_pool").Equal(pool.Sub(whole)), "escrow-to-bonded-pool-by-the-same-amount")
	ndAssert(bank.minted.IsZero() && bank.burned.IsZero(), "supply-unchanged")
	rem, rerr := k.SelectorTips.Get(ctx, sel)
	frac := credit.Sub(math.LegacyNewDecFromInt(whole))
	if frac.IsZero() {
		ndAssert(rerr != nil, "credit-record-removed-when-nothing-remains")
	} else {
		ndAssert(rerr == nil && rem.Equal(frac), "fractional-part-stays-credited")
	}
}
