package keeper

import (
	"context"

	"github.com/tellor-io/layer/x/reporter/types"

	"cosmossdk.io/math"

	sdk "github.com/cosmos/cosmos-sdk/types"
	stakingtypes "github.com/cosmos/cosmos-sdk/x/staking/types"
)

// c05UbdStaking: the staking keeper as far as deductUnbondingDelegation uses it: one unbonding delegation record.
type c05UbdStaking struct {
	types.StakingKeeper
	ubd     stakingtypes.UnbondingDelegation
	removed bool
	set     bool
}

func (s *c05UbdStaking) GetUnbondingDelegation(ctx context.Context, delAddr sdk.AccAddress, valAddr sdk.ValAddress) (stakingtypes.UnbondingDelegation, error) {
	return s.ubd, nil
}

func (s *c05UbdStaking) RemoveUnbondingDelegation(ctx context.Context, ubd stakingtypes.UnbondingDelegation) error {
	s.removed = true
	s.ubd = ubd
	return nil
}

func (s *c05UbdStaking) SetUnbondingDelegation(ctx context.Context, ubd stakingtypes.UnbondingDelegation) error {
	s.set = true
	s.ubd = ubd
	return nil
}

func c05Entries() int {
	if ndTier() > 0 {
		return 4
	}
	return 3
}

// VerifC05_deduct_unbonding: what deductUnbondingDelegation takes from the unbonding entries is exactly what
// leaves the not-bonded pool for the dispute account; taken + still-missing = requested; no entry goes negative.
func VerifC05_deduct_unbonding() {
	n := 1 + ndLen("n", c05Entries()-1)
	entries := make([]stakingtypes.UnbondingDelegationEntry, n)
	before := math.ZeroInt()
	lim := math.NewIntWithDecimal(1, 30)
	for i := 0; i < n; i++ {
		b := ndBigInt(nm("bal", i))
		ndAssume(b.IsPositive() && b.LT(lim))
		// an entry slashed for a validator infraction has a balance below its initial balance
		slack := ndBigInt(nm("slashedFromEntry", i))
		ndAssume(!slack.IsNegative())
		ndAssume(slack.LT(math.NewInt(1000000000)))
		entries[i] = stakingtypes.UnbondingDelegationEntry{Balance: b, InitialBalance: b.Add(slack), CreationHeight: int64(i)}
		before = before.Add(b)
	}
	tokens := ndBigInt("tokens")
	ndAssume(tokens.IsPositive() && tokens.LT(lim))
	sk := &c05UbdStaking{ubd: stakingtypes.UnbondingDelegation{Entries: entries}}
	bank := newVBank(false)
	bank.set(vbMod(stakingtypes.NotBondedPoolName), before) // the pool backs exactly the unbonding entries
	ctx, k := vRepKeeper(sk, bank)
	rem, err := k.deductUnbondingDelegation(ctx, sdk.AccAddress(ndAddr("del")), sdk.ValAddress(ndAddr("val")), tokens)
	ndAssert(err == nil, "no-error")
	if err != nil {
		return
	}
	ndReach("ran")
	taken := bank.modBal(disputeModuleName())
	ndAssert(taken.Add(rem).Equal(tokens), "taken-plus-still-missing-is-requested")
	ndAssert(!rem.IsNegative(), "remaining-non-negative")
	after := math.ZeroInt()
	nonNeg := true
	for _, e := range sk.ubd.Entries {
		nonNeg = ndAnd(nonNeg, !e.Balance.IsNegative())
		after = after.Add(e.Balance)
	}
	ndAssert(nonNeg, "no-entry-balance-negative")
	ndAssert(after.Equal(before.Sub(taken)), "entries-decrease-by-what-left-the-pool")
	ndAssert(bank.modBal(stakingtypes.NotBondedPoolName).Equal(after), "not-bonded-pool-still-backs-the-entries")
	ndAssert(ndOr(rem.IsZero(), after.IsZero()), "takes-everything-available-before-reporting-a-shortfall")
	ndAssert(sk.removed != sk.set, "record-written-exactly-once")
	ndAssert(sk.removed == (len(sk.ubd.Entries) == 0), "record-removed-iff-empty")
}

func disputeModuleName() string { return "dispute" }
