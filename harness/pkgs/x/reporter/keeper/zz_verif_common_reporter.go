package keeper

import (
	"github.com/tellor-io/layer/x/reporter/types"

	"cosmossdk.io/log"

	sdk "github.com/cosmos/cosmos-sdk/types"
	authtypes "github.com/cosmos/cosmos-sdk/x/auth/types"
)

// vRepKeeper: the real reporter keeper over an empty store, with the given staking stub and the shared bank model.
func vRepKeeper(sk types.StakingKeeper, bank types.BankKeeper) (sdk.Context, Keeper) {
	ctx, ss, cdc := ndEnv("reporter")
	k := NewKeeper(cdc, ss, log.NewNopLogger(), authtypes.NewModuleAddress("gov").String(), sk, bank, nil)
	return ctx, k
}
