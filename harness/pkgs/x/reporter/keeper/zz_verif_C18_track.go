package keeper

import (
	"context"
	"time"

	"github.com/tellor-io/layer/x/reporter/types"

	"cosmossdk.io/math"
)

type c18Staking struct {
	types.StakingKeeper
	bonded math.Int
}

func (s c18Staking) TotalBondedTokens(context.Context) (math.Int, error) { return s.bonded, nil }

// VerifC18_track: the recorded amount is refreshed only after its 12 hours have passed; the refreshed record is the
// current bonded total with an expiration 12 hours after the refreshing block.
func VerifC18_track() {
	bonded := ndBigInt("bonded")
	ndAssume(!bonded.IsNegative())
	ctx, k := vRepKeeper(c18Staking{bonded: bonded}, nil)
	base := ndBigInt("base")
	ndAssume(!base.IsNegative())
	exp := ndTime("expiration")
	now := ndTime("now")
	if err := k.Tracker.Set(ctx, types.StakeTracker{Expiration: &exp, Amount: base}); err != nil {
		panic(err)
	}
	err := k.TrackStakeChange(ctx.WithBlockTime(now))
	ndAssert(err == nil, "no-error")
	if err != nil {
		return
	}
	got, gerr := k.Tracker.Get(ctx)
	ndAssert(gerr == nil && got.Expiration != nil, "tracker-readable")
	if gerr != nil || got.Expiration == nil {
		return
	}
	if now.Before(exp) {
		ndReach("inside-period")
		ndAssert(got.Amount.Equal(base) && got.Expiration.Equal(exp), "record-unchanged-inside-its-period")
		return
	}
	ndReach("period-over")
	ndAssert(got.Amount.Equal(bonded), "refreshed-amount-is-current-bonded-total")
	ndAssert(got.Expiration.Equal(now.Add(12*time.Hour)), "new-period-ends-12h-after-the-refreshing-block")
}
