package keeper

import (
	"time"

	"github.com/tellor-io/layer/x/reporter/types"

	"cosmossdk.io/collections"
	"cosmossdk.io/math"

	sdk "github.com/cosmos/cosmos-sdk/types"
	stakingtypes "github.com/cosmos/cosmos-sdk/x/staking/types"
)

// VerifC10_reporter_stake: ReporterStake = sum over the reporter's selectors that are not inside their lock period of
// the whole tokens they have delegated to BONDED validators, each delegation counted once; the stored token origins
// sum to it; a jailed reporter gets an error. Both iteration strategies (by delegation / by bonded validator).
func VerifC10_reporter_stake() {
	rep := ndAddr("reporter")
	selA := ndAddr("selectorA")
	ndAssume(string(rep) != string(selA))
	// three validators, listed by descending power; statuses arbitrary; exchange rate 1 (tokens = shares), 3 tokens per 4 shares
	// for the second validator
	valAddrs := []sdk.ValAddress{sdk.ValAddress(ndAddr("val0")), sdk.ValAddress(ndAddr("val1")), sdk.ValAddress(ndAddr("val2"))}
	ndAssume(string(valAddrs[0]) != string(valAddrs[1]) && string(valAddrs[0]) != string(valAddrs[2]) && string(valAddrs[1]) != string(valAddrs[2]))
	sk := &vStaking{bonded: math.NewInt(1)}
	statuses := []stakingtypes.BondStatus{stakingtypes.Bonded, stakingtypes.Unbonding, stakingtypes.Unbonded}
	bondedV := make([]bool, 3)
	for i := 0; i < 3; i++ {
		st := statuses[ndPick(nm("status", i), 3)]
		bondedV[i] = st == stakingtypes.Bonded
		tokens, shares := math.NewInt(5000000), math.LegacyNewDec(5000000)
		if i >= 1 {
			tokens, shares = math.NewInt(3000000), math.LegacyNewDec(4000000)
		}
		sk.vals = append(sk.vals, stakingtypes.Validator{OperatorAddress: valAddrs[i].String(), Status: st, Tokens: tokens, DelegatorShares: shares})
	}
	// delegations: reporter -> val0 ; A -> val1 ; A -> val2 (each present or not, shares symbolic whole numbers)
	type del struct {
		who     []byte
		val     int
		present bool
		shares  math.Int
	}
	dels := []del{{rep, 0, ndBool("d0"), ndBigInt("s0")}, {selA, 1, ndBool("d1"), ndBigInt("s1")}, {selA, 2, ndBool("d2"), ndBigInt("s2")}}
	cntRep, cntA := uint64(0), uint64(0)
	for _, d := range dels {
		ndAssume(d.shares.IsPositive() && d.shares.LT(math.NewInt(1000000000)))
		if d.present {
			sk.dels = append(sk.dels, stakingtypes.Delegation{DelegatorAddress: sdk.AccAddress(d.who).String(), ValidatorAddress: valAddrs[d.val].String(), Shares: math.LegacyNewDecFromInt(d.shares)})
			if string(d.who) == string(rep) {
				cntRep++
			} else {
				cntA++
			}
		}
	}
	// strategy: delegations count vs max validators (invariant R3: DelegationsCount = number of delegations)
	sk.maxVals = []uint32{100, 1, 0}[ndPick("maxVals", 3)]
	ctx, k := vRepKeeper(sk, nil)
	jailed := ndBool("jailed")
	must2(k.Reporters.Set(ctx, rep, types.OracleReporter{MinTokensRequired: math.OneInt(), CommissionRate: math.LegacyZeroDec(), Jailed: jailed}))
	must2(k.Selectors.Set(ctx, rep, types.Selection{Reporter: rep, DelegationsCount: cntRep}))
	aJoined := ndBool("aIsSelector")
	lockedUntil := ndTime("aLockedUntil")
	if aJoined {
		must2(k.Selectors.Set(ctx, selA, types.Selection{Reporter: rep, DelegationsCount: cntA, LockedUntilTime: lockedUntil}))
	}
	now := ndTime("now")
	qid := ndHash("qid")
	h := int64(33)
	got, err := k.ReporterStake(ctx.WithBlockTime(now).WithBlockHeight(h), rep, qid)
	if jailed {
		ndAssert(err != nil, "jailed-reporter-has-no-reporting-stake")
		ndReach("jailed")
		return
	}
	ndAssert(err == nil, "no-error")
	if err != nil {
		return
	}
	ndReach("counted")
	aActive := aJoined && !lockedUntil.After(now)
	want := math.ZeroInt()
	nOrigins := 0
	for _, d := range dels {
		active := string(d.who) == string(rep) || aActive
		if d.present && active && bondedV[d.val] {
			tokens := d.shares
			if d.val >= 1 {
				tokens = d.shares.MulRaw(3).QuoRaw(4)
			}
			want = want.Add(tokens)
			nOrigins++
		}
	}
	ndAssert(got.Equal(want), "stake-is-bonded-tokens-of-active-selectors-counted-once")
	rec, rerr := k.Report.Get(ctx, collections.Join(qid, collections.Join(rep, uint64(h))))
	ndAssert(rerr == nil && rec.Total.Equal(got), "stored-total-is-the-returned-stake")
	if rerr == nil {
		sum := math.ZeroInt()
		for _, o := range rec.TokenOrigins {
			sum = sum.Add(o.Amount)
		}
		ndAssert(sum.Equal(rec.Total) && len(rec.TokenOrigins) == nOrigins, "token-origins-sum-to-the-total-one-per-counted-delegation")
	}
}

func must2(err error) {
	if err != nil {
		panic(err)
	}
}

// VerifC10_hooks: the staking hooks keep the selector record intact: creating / removing a delegation changes only
// DelegationsCount (by one); the reporter and the lock period stay.
func VerifC10_hooks() {
	sel := ndAddr("selector")
	rep := ndAddr("reporter")
	ctx, k := vRepKeeper(&vStaking{}, nil)
	cnt := ndUint64("count")
	ndAssume(cnt >= 1 && cnt < 1<<40)
	locked := ndTime("lockedUntil")
	isSelector := ndBool("isSelector")
	if isSelector {
		must2(k.Selectors.Set(ctx, sel, types.Selection{Reporter: rep, DelegationsCount: cnt, LockedUntilTime: locked}))
	}
	create := ndBool("create")
	var err error
	if create {
		err = k.Hooks().BeforeDelegationCreated(ctx, sel, sdk.ValAddress(ndAddr("val")))
	} else {
		err = k.Hooks().BeforeDelegationRemoved(ctx, sel, sdk.ValAddress(ndAddr("val")))
	}
	ndAssert(err == nil, "hook-returns-nil")
	got, gerr := k.Selectors.Get(ctx, sel)
	if !isSelector {
		ndAssert(gerr != nil, "hook-creates-no-selector-record")
		ndReach("not-a-selector")
		return
	}
	ndReach("selector")
	want := cnt + 1
	if !create {
		want = cnt - 1
	}
	ndAssert(gerr == nil && got.DelegationsCount == want, "delegations-count-follows-the-staking-module")
	ndAssert(gerr == nil && string(got.Reporter) == string(rep) && got.LockedUntilTime.Equal(locked), "reporter-and-lock-period-preserved")
}

var _ = time.Second
