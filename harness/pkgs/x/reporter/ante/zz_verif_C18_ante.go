package ante

import (
	"context"

	"github.com/tellor-io/layer/x/reporter/keeper"
	"github.com/tellor-io/layer/x/reporter/types"

	"cosmossdk.io/log"
	"cosmossdk.io/math"

	sdk "github.com/cosmos/cosmos-sdk/types"
	authtypes "github.com/cosmos/cosmos-sdk/x/auth/types"
	stakingtypes "github.com/cosmos/cosmos-sdk/x/staking/types"
	protov2 "google.golang.org/protobuf/proto"
)

type c18Tx struct{ msgs []sdk.Msg }

func (t c18Tx) GetMsgs() []sdk.Msg                    { return t.msgs }
func (t c18Tx) GetMsgsV2() ([]protov2.Message, error) { return nil, nil }

// c18Staking: only TotalBondedTokens is part of the decorator's environment; any other call is a nil-interface panic.
type c18Staking struct {
	types.StakingKeeper
	bonded math.Int
}

func (s c18Staking) TotalBondedTokens(context.Context) (math.Int, error) { return s.bonded, nil }

func c18MaxMsgs() int {
	if ndTier() > 0 {
		return 5
	}
	return 3
}

// VerifC18_cumulative: a transaction passes the decorator only if the COMBINED effect of its staking messages
// keeps bonded stake within 105% / 95% of the amount recorded at the start of the period.
func VerifC18_cumulative() {
	ctx, ss, cdc := ndEnv("reporter")
	base := ndBigInt("base")
	bonded := ndBigInt("bonded")
	lim := math.NewIntWithDecimal(1, 30)
	ndAssume(base.IsPositive() && !bonded.IsNegative() && base.LT(lim) && bonded.LT(lim))
	sk := c18Staking{bonded: bonded}
	k := keeper.NewKeeper(cdc, ss, log.NewNopLogger(), authtypes.NewModuleAddress("gov").String(), sk, nil, nil)
	hasTracker := ndBool("hasTracker")
	if hasTracker {
		// the tracking period may be running or over (its end is refreshed by the EndBlocker, not by transactions): the
		// bound is against the recorded amount either way
		exp := ndTime("periodEnd")
		ctx = ctx.WithBlockTime(ndTime("now"))
		if err := k.Tracker.Set(ctx, types.StakeTracker{Amount: base, Expiration: &exp}); err != nil {
			panic(err)
		}
	}
	n := ndLen("nmsgs", c18MaxMsgs())
	msgs := make([]sdk.Msg, n)
	adds, subs := math.ZeroInt(), math.ZeroInt()
	nAdd, nSub := 0, 0
	for i := 0; i < n; i++ {
		amt := ndBigInt(nm("amt", i))
		ndAssume(amt.IsPositive() && amt.LT(lim))
		c := sdk.Coin{Denom: "loya", Amount: amt}
		switch ndPick(nm("kind", i), 6) {
		case 0:
			msgs[i] = &stakingtypes.MsgCreateValidator{Value: c}
			adds = adds.Add(amt)
			nAdd++
		case 1:
			msgs[i] = &stakingtypes.MsgDelegate{Amount: c}
			adds = adds.Add(amt)
			nAdd++
		case 2:
			msgs[i] = &stakingtypes.MsgBeginRedelegate{Amount: c}
			adds = adds.Add(amt)
			nAdd++
		case 3:
			msgs[i] = &stakingtypes.MsgCancelUnbondingDelegation{Amount: c}
			adds = adds.Add(amt)
			nAdd++
		case 4:
			msgs[i] = &stakingtypes.MsgUndelegate{Amount: c}
			subs = subs.Add(amt)
			nSub++
		default:
			msgs[i] = &stakingtypes.MsgEditValidator{} // a non-staking-amount message: not constrained
		}
	}
	d := NewTrackStakeChangesDecorator(k, sk)
	nextCalled := false
	_, err := d.AnteHandle(ctx, c18Tx{msgs: msgs}, false, func(c sdk.Context, tx sdk.Tx, simulate bool) (sdk.Context, error) {
		nextCalled = true
		return c, nil
	})
	if err != nil {
		ndReach("rejected")
		ndAssert(!nextCalled, "rejected-stops-the-chain-of-handlers")
		return
	}
	ndReach("accepted")
	if !hasTracker {
		// chain start: nothing recorded yet, the statement's bound has no baseline
		ndReach("accepted-no-baseline")
		return
	}
	// the statement's bound: 20*(bonded+adds) <= 21*base and 20*(bonded-subs) >= 19*base
	// (cross-multiplied 105% / 95%; the code's base +- floor(base/20) is stricter and implies it)
	if nAdd > 0 {
		ndAssert(bonded.Add(adds).MulRaw(20).LTE(base.MulRaw(21)), "combined-adds-within-105pct")
	}
	if nSub > 0 {
		ndAssert(bonded.Sub(subs).MulRaw(20).GTE(base.MulRaw(19)), "combined-undelegations-within-95pct")
	}
	if nAdd+nSub > 0 {
		ndReach("accepted-with-staking-messages")
	}
}
