package app

import (
	"context"
	"encoding/json"

	abci "github.com/cometbft/cometbft/abci/types"
	cmtproto "github.com/cometbft/cometbft/proto/tendermint/types"
	bridgekeeper "github.com/tellor-io/layer/x/bridge/keeper"

	"cosmossdk.io/log"

	sdk "github.com/cosmos/cosmos-sdk/types"
	authtypes "github.com/cosmos/cosmos-sdk/x/auth/types"
	stakingtypes "github.com/cosmos/cosmos-sdk/x/staking/types"
)

// c17Staking: consensus address -> validator with an operator address derived from it.
type c17Staking struct{ ops map[string]string }

func (s c17Staking) GetValidatorByConsAddr(ctx context.Context, consAddr sdk.ConsAddress) (stakingtypes.Validator, error) {
	return stakingtypes.Validator{OperatorAddress: s.ops[string(consAddr)]}, nil
}

func c17Handlers() (sdk.Context, *ProposalHandler, *VoteExtHandler, bridgekeeper.Keeper) {
	ctx, ss, cdc := ndEnv("bridge")
	bk := bridgekeeper.NewKeeper(cdc, ss, nil, nil, nil, nil, authtypes.NewModuleAddress("gov").String())
	ops := map[string]string{}
	ph := NewProposalHandler(log.NewNopLogger(), nil, nil, nil, bk, c17Staking{ops: ops})
	vh := NewVoteExtHandler(log.NewNopLogger(), nil, nil, bk)
	return ctx, ph, vh, bk
}

var c17SigLens = []int{0, 1, 63, 64, 65}

// VerifC17_short_signatures: a vote extension that VerifyVoteExtensionHandler accepts never makes the proposal
// handlers panic when it comes back inside the extended commit (signatures of any length 0..65).
func VerifC17_short_signatures() {
	ctx, ph, vh, _ := c17Handlers()
	la := c17SigLens[ndPick("lenA", len(c17SigLens))]
	lb := c17SigLens[ndPick("lenB", len(c17SigLens))]
	lv := c17SigLens[ndPick("lenV", len(c17SigLens))]
	ext := BridgeVoteExtension{
		InitialSignature: InitialSignature{SignatureA: ndByteSlice("sigA", la), SignatureB: ndByteSlice("sigB", lb)},
		ValsetSignature:  BridgeValsetSignature{Signature: ndByteSlice("sigV", lv), Timestamp: ndUint64("ts")},
	}
	bz, err := json.Marshal(ext)
	if err != nil {
		panic(err)
	}
	cons := ndAddr("cons")
	ph.stakingKeeper.(c17Staking).ops[string(cons)] = ndString("operator")
	resp, verr := vh.VerifyVoteExtensionHandler(ctx.WithBlockHeight(10), &abci.RequestVerifyVoteExtension{VoteExtension: bz, ValidatorAddress: cons, Height: 10})
	ndAssert(verr == nil && resp != nil, "verify-returns-a-verdict")
	if verr != nil || resp == nil || resp.Status != abci.ResponseVerifyVoteExtension_ACCEPT {
		ndReach("extension-rejected")
		return
	}
	ndReach("extension-accepted")
	commit := abci.ExtendedCommitInfo{Votes: []abci.ExtendedVoteInfo{{
		Validator:     abci.Validator{Address: cons, Power: 10},
		VoteExtension: bz,
		BlockIdFlag:   cmtproto.BlockIDFlagCommit,
	}}}
	// known finding C17-F1 (before the repair): a signature shorter than 64 bytes made sig[:64] panic
	ops, evms, cerr := ph.CheckInitialSignaturesFromLastCommit(ctx, commit)
	ndAssert(cerr == nil && len(ops) == len(evms), "initial-signature-check-completes")
	vo, vt, vs, verr2 := ph.CheckValsetSignaturesFromLastCommit(ctx, commit)
	ndAssert(verr2 == nil && len(vo) == len(vt) && len(vt) == len(vs), "valset-signature-check-completes")
	ndReach("commit-checked")
}
