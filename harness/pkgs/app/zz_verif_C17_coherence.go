package app

import (
	"bytes"
	"context"
	"crypto/ed25519"
	"encoding/json"
	"errors"

	abci "github.com/cometbft/cometbft/abci/types"
	cmtprotocrypto "github.com/cometbft/cometbft/proto/tendermint/crypto"
	cmtproto "github.com/cometbft/cometbft/proto/tendermint/types"
	protoio "github.com/cosmos/gogoproto/io"
	bridgekeeper "github.com/tellor-io/layer/x/bridge/keeper"

	coreheader "cosmossdk.io/core/header"
	"cosmossdk.io/log"

	"github.com/cosmos/cosmos-sdk/baseapp"
	sdk "github.com/cosmos/cosmos-sdk/types"
	authtypes "github.com/cosmos/cosmos-sdk/x/auth/types"
)

// c17ValStore: the consensus keys of the validators of the commit (baseapp.ValidatorStore).
type c17ValStore struct {
	keys map[string]cmtprotocrypto.PublicKey
}

func (s c17ValStore) GetPubKeyByConsAddr(ctx context.Context, a sdk.ConsAddress) (cmtprotocrypto.PublicKey, error) {
	k, ok := s.keys[string(a)]
	if !ok {
		return cmtprotocrypto.PublicKey{}, errors.New("unknown validator")
	}
	return k, nil
}

// c17MakeValid turns the commit into one that baseapp.ValidateVoteExtensions can check: descending powers, and -
// in the native run - a real ed25519 key per validator, its signature over the canonical vote extension, and a
// context whose header and last commit match. Symbolically the signatures are placeholders (validity of the
// signatures is assumed by the model of ValidateVoteExtensions, the voting-power rule is modelled).
func c17MakeValid(ctx sdk.Context, vs c17ValStore, commit *abci.ExtendedCommitInfo, height int64) sdk.Context {
	n := len(commit.Votes)
	for i := range commit.Votes {
		commit.Votes[i].Validator.Power = int64(10 * (n - i))
		commit.Votes[i].ExtensionSignature = []byte{1}
	}
	if ndSymbolic() {
		return ctx
	}
	var last abci.CommitInfo
	for i := range commit.Votes {
		seed := make([]byte, ed25519.SeedSize)
		seed[0] = byte(i + 1)
		priv := ed25519.NewKeyFromSeed(seed)
		vs.keys[string(commit.Votes[i].Validator.Address)] = cmtprotocrypto.PublicKey{Sum: &cmtprotocrypto.PublicKey_Ed25519{Ed25519: priv.Public().(ed25519.PublicKey)}}
		cve := cmtproto.CanonicalVoteExtension{Extension: commit.Votes[i].VoteExtension, Height: height - 1, Round: 0, ChainId: "layer"}
		var buf bytes.Buffer
		if err := protoio.NewDelimitedWriter(&buf).WriteMsg(&cve); err != nil {
			panic(err)
		}
		commit.Votes[i].ExtensionSignature = ed25519.Sign(priv, buf.Bytes())
		last.Votes = append(last.Votes, abci.VoteInfo{Validator: commit.Votes[i].Validator, BlockIdFlag: commit.Votes[i].BlockIdFlag})
	}
	return ctx.WithCometInfo(baseapp.NewBlockInfo(nil, nil, nil, last)).WithHeaderInfo(coreheader.Info{Height: height, ChainID: "layer"})
}

// c17ValidPower: the rule of baseapp.ValidateVoteExtensions: commit votes carry at least 2/3 + 1 of the power.
func c17ValidPower(commit abci.ExtendedCommitInfo) bool {
	total, sum := int64(0), int64(0)
	for _, v := range commit.Votes {
		total += v.Validator.Power
		if v.BlockIdFlag == cmtproto.BlockIDFlagCommit {
			sum += v.Validator.Power
		}
	}
	return total > 0 && sum >= total*2/3+1
}

// VerifC17_coherence: a proposal that PrepareProposalHandler builds from an extended commit is accepted by
// ProcessProposalHandler on the same state (the injected transaction comes first, the other transactions follow
// unchanged), and the same proposal with one element of the injected bridge data changed is rejected.
func VerifC17_coherence() {
	ctx0, ss, cdc := ndEnv("bridge")
	bk := bridgekeeper.NewKeeper(cdc, ss, nil, nil, nil, nil, authtypes.NewModuleAddress("gov").String())
	vs := c17ValStore{keys: map[string]cmtprotocrypto.PublicKey{}}
	ph := NewProposalHandler(log.NewNopLogger(), vs, nil, nil, bk, c17Staking{ops: map[string]string{}})
	n := 1
	if ndTier() >= 1 {
		n = 1 + ndLen("nvotes", 1)
	}
	_, commit := c17Commit(ph, n)
	ctx := c17MakeValid(ctx0, vs, &commit, 5)
	// the statement is about valid extended commits
	ndAssume(c17ValidPower(commit))
	bctx := ctx.WithConsensusParams(cmtproto.ConsensusParams{Abci: &cmtproto.ABCIParams{VoteExtensionsEnableHeight: 1}}).WithBlockHeight(5)
	other := []byte("some other transaction")
	prep, err := ph.PrepareProposalHandler(bctx, &abci.RequestPrepareProposal{Height: 5, LocalLastCommit: commit, Txs: [][]byte{other}})
	ndAssert(err == nil && prep != nil, "prepare-builds-a-proposal")
	if err != nil || prep == nil {
		return
	}
	ndAssert(len(prep.Txs) == 2 && string(prep.Txs[1]) == string(other), "injected-transaction-first-then-the-others-unchanged")
	if len(prep.Txs) != 2 {
		return
	}
	res, perr := ph.ProcessProposalHandler(bctx, &abci.RequestProcessProposal{Height: 5, Txs: prep.Txs})
	ndAssert(perr == nil && res != nil && res.Status == abci.ResponseProcessProposal_ACCEPT, "process-accepts-what-prepare-built")
	ndReach("accepted")
	// one changed element of the injected data
	var tx VoteExtTx
	if uerr := json.Unmarshal(prep.Txs[0], &tx); uerr != nil {
		panic(uerr)
	}
	foreignOp := ndString("foreignOperator")
	mutated := true
	switch ndPick("mutation", 7) {
	case 0: // register an address nobody signed for
		tx.OpAndEVMAddrs.OperatorAddresses = append(tx.OpAndEVMAddrs.OperatorAddresses, foreignOp)
		tx.OpAndEVMAddrs.EVMAddresses = append(tx.OpAndEVMAddrs.EVMAddresses, "00000000000000000000000000000000000000aa")
	case 1: // another timestamp on a valset signature
		if len(tx.ValsetSigs.Timestamps) == 0 {
			mutated = false
		} else {
			tx.ValsetSigs.Timestamps[0]++
		}
	case 2: // a valset signature under another operator
		if len(tx.ValsetSigs.OperatorAddresses) == 0 {
			mutated = false
		} else {
			ndAssume(foreignOp != tx.ValsetSigs.OperatorAddresses[0])
			tx.ValsetSigs.OperatorAddresses[0] = foreignOp
		}
	case 3: // an attestation dropped
		if len(tx.OracleAttestations.OperatorAddresses) == 0 {
			mutated = false
		} else {
			k := len(tx.OracleAttestations.OperatorAddresses) - 1
			tx.OracleAttestations.OperatorAddresses = tx.OracleAttestations.OperatorAddresses[:k]
			tx.OracleAttestations.Attestations = tx.OracleAttestations.Attestations[:k]
			tx.OracleAttestations.Snapshots = tx.OracleAttestations.Snapshots[:k]
		}
	case 4: // an attestation under another operator
		if len(tx.OracleAttestations.OperatorAddresses) == 0 {
			mutated = false
		} else {
			ndAssume(foreignOp != tx.OracleAttestations.OperatorAddresses[0])
			tx.OracleAttestations.OperatorAddresses[0] = foreignOp
		}
	case 5: // entries that are empty strings where the commit has none (text-equal to nothing when joined)
		if len(tx.ValsetSigs.OperatorAddresses) != 0 {
			mutated = false
		} else {
			tx.ValsetSigs.OperatorAddresses = []string{""}
			tx.ValsetSigs.Signatures = []string{""}
		}
	default: // an attestation invented
		tx.OracleAttestations.OperatorAddresses = append(tx.OracleAttestations.OperatorAddresses, foreignOp)
		tx.OracleAttestations.Attestations = append(tx.OracleAttestations.Attestations, []byte{1, 2, 3})
		tx.OracleAttestations.Snapshots = append(tx.OracleAttestations.Snapshots, []byte{4, 5, 6})
	}
	if !mutated {
		return
	}
	bz, merr := json.Marshal(tx)
	if merr != nil {
		panic(merr)
	}
	res2, perr2 := ph.ProcessProposalHandler(bctx, &abci.RequestProcessProposal{Height: 5, Txs: [][]byte{bz, other}})
	ndReach("mutated")
	ndAssert(perr2 == nil && res2 != nil && res2.Status == abci.ResponseProcessProposal_REJECT, "a-proposal-with-one-changed-element-is-rejected")
}
