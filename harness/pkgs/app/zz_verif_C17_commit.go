package app

import (
	"crypto/sha256"
	"encoding/hex"
	"encoding/json"

	abci "github.com/cometbft/cometbft/abci/types"
	cmtproto "github.com/cometbft/cometbft/proto/tendermint/types"
	gethcommon "github.com/ethereum/go-ethereum/common"
	gethcrypto "github.com/ethereum/go-ethereum/crypto"
	bridgetypes "github.com/tellor-io/layer/x/bridge/types"
)

var c17Flags = []cmtproto.BlockIDFlag{cmtproto.BlockIDFlagCommit, cmtproto.BlockIDFlagAbsent, cmtproto.BlockIDFlagNil, cmtproto.BlockIDFlagUnknown}

type c17Vote struct {
	flag     cmtproto.BlockIDFlag
	cons     []byte
	op       string
	hasInit  bool
	hasVal   bool
	sigV     []byte
	ts       uint64
	hasAtt   bool
	snapshot []byte
	attSig   []byte
	regd     bool
}

// c17Commit: an extended commit of n votes with arbitrary flags; every vote carries a structurally valid extension
// with or without an initial signature pair, a valset signature and one oracle attestation.
func c17Commit(ph *ProposalHandler, n int) ([]c17Vote, abci.ExtendedCommitInfo) {
	votes := make([]c17Vote, n)
	var infos []abci.ExtendedVoteInfo
	for i := 0; i < n; i++ {
		v := c17Vote{flag: c17Flags[ndPick(nm("flag", i), 3+ndTier())], cons: ndAddr(nm("cons", i)), op: ndString(nm("operator", i)),
			hasInit: ndBool(nm("hasInit", i)), hasVal: ndBool(nm("hasValsetSig", i)), hasAtt: ndBool(nm("hasAttestation", i)), ts: ndUint64(nm("ts", i))}
		for j := 0; j < i; j++ {
			ndAssume(string(v.cons) != string(votes[j].cons) && v.op != votes[j].op)
		}
		ext := BridgeVoteExtension{}
		if v.hasInit {
			a, b := c17InitialSigs(i)
			ext.InitialSignature = InitialSignature{SignatureA: a, SignatureB: b}
		}
		if v.hasVal {
			v.sigV = ndByteSlice(nm("sigV", i), 2)
			ext.ValsetSignature = BridgeValsetSignature{Signature: v.sigV, Timestamp: v.ts}
		}
		if v.hasAtt {
			v.snapshot, v.attSig = ndBytesN(nm("snapshot", i), 32), ndBytesN(nm("attSig", i), 65)
			ext.OracleAttestations = []OracleAttestation{{Snapshot: v.snapshot, Attestation: v.attSig}}
		}
		bz, err := json.Marshal(ext)
		if err != nil {
			panic(err)
		}
		// a peer may also send an object that leaves out the keys it has nothing for (still valid JSON, still
		// passes verification): absent means empty
		if (i == n-1 || ndTier() >= 1) && ndBool(nm("sparse", i)) {
			if !v.hasAtt {
				bz = ndJSONDrop(bz, "OracleAttestations")
			}
			if !v.hasInit {
				bz = ndJSONDrop(bz, "InitialSignature")
			}
			if !v.hasVal {
				bz = ndJSONDrop(bz, "ValsetSignature")
			}
		}
		ph.stakingKeeper.(c17Staking).ops[string(v.cons)] = v.op
		infos = append(infos, abci.ExtendedVoteInfo{Validator: abci.Validator{Address: v.cons, Power: 10}, VoteExtension: bz, BlockIdFlag: v.flag})
		votes[i] = v
	}
	return votes, abci.ExtendedCommitInfo{Votes: infos}
}

// VerifC17_commit_data: what the proposal handlers extract from an extended commit is exactly what the COMMIT votes'
// extensions contain, attributed to the validator that sent it: absent / nil / unknown votes contribute nothing;
// valset signatures and attestations are listed once per sending validator, in vote order, under its operator.
func VerifC17_commit_data() {
	ctx, ph, _, _ := c17Handlers()
	n := 1 + ndLen("nvotes", 1)
	votes, commit := c17Commit(ph, n)
	// valset signatures
	ops, tss, sigs, err := ph.CheckValsetSignaturesFromLastCommit(ctx, commit)
	ndAssert(err == nil && len(ops) == len(tss) && len(tss) == len(sigs), "valset-lists-aligned")
	want := 0
	for _, v := range votes {
		if v.flag == cmtproto.BlockIDFlagCommit && v.hasVal {
			want++
		}
	}
	ndAssert(len(ops) == want, "one-valset-signature-per-commit-vote-that-carries-one")
	if len(ops) == want {
		j := 0
		ok := true
		for _, v := range votes {
			if v.flag == cmtproto.BlockIDFlagCommit && v.hasVal {
				ok = ndAnd(ok, ndAnd(ops[j] == v.op, ndAnd(uint64(tss[j]) == v.ts, sigs[j] == hex.EncodeToString(v.sigV))))
				j++
			}
		}
		ndAssert(ok, "valset-signature-attributed-to-its-sender-with-its-timestamp")
	}
	// oracle attestations
	atts, snaps, aops, aerr := ph.CheckOracleAttestationsFromLastCommit(ctx, commit)
	ndAssert(aerr == nil && len(atts) == len(snaps) && len(snaps) == len(aops), "attestation-lists-aligned")
	wantA := 0
	for _, v := range votes {
		if v.flag == cmtproto.BlockIDFlagCommit && v.hasAtt {
			wantA++
		}
	}
	ndAssert(len(aops) == wantA, "one-attestation-per-commit-vote-that-carries-one")
	if len(aops) == wantA {
		j := 0
		ok := true
		for _, v := range votes {
			if v.flag == cmtproto.BlockIDFlagCommit && v.hasAtt {
				ok = ndAnd(ok, ndAnd(aops[j] == v.op, ndAnd(string(snaps[j]) == string(v.snapshot), string(atts[j]) == string(v.attSig))))
				j++
			}
		}
		ndAssert(ok, "attestation-attributed-to-its-sender")
	}
	// initial signatures: only from commit votes (recovery may fail: at most one entry per such vote)
	iops, ievm, ierr := ph.CheckInitialSignaturesFromLastCommit(ctx, commit)
	ndAssert(ierr == nil && len(iops) == len(ievm), "registration-lists-aligned")
	fromCommit := true
	for _, op := range iops {
		found := false
		for _, v := range votes {
			found = ndOr(found, ndAnd(op == v.op, v.flag == cmtproto.BlockIDFlagCommit && v.hasInit))
		}
		fromCommit = ndAnd(fromCommit, found)
	}
	ndAssert(fromCommit, "evm-registrations-come-only-from-commit-votes-with-initial-signatures")
	// ... and in vote order: proposer and validators each recompute the list and compare it element by element, and
	// PreBlocker writes the registrations in the listed order
	inOrder, last := true, -1
	for _, op := range iops {
		p := -1
		for i, v := range votes {
			p = ndIteInt(op == v.op, i, p)
		}
		inOrder = ndAnd(inOrder, p > last)
		last = p
	}
	ndAssert(inOrder, "evm-registrations-listed-in-vote-order")
	if len(iops) == 2 {
		ndReach("two-registrations")
	}
	ndReach("extracted")
}

// VerifC17_preblock: PreBlocker writes exactly the injected data: EVM addresses for the listed operators, valset
// signatures and attestations only through the keeper calls for the listed operator.
func VerifC17_preblock() {
	ctx, ph, _, bk := c17Handlers()
	op := ndString("operator")
	other := ndString("otherOperator")
	ndAssume(op != other)
	evmBytes := ndByteSlice("evm", 20)
	var addr [20]byte
	copy(addr[:], evmBytes)
	hexAddr := commonAddressHex(addr)
	tx := VoteExtTx{BlockHeight: 5, OpAndEVMAddrs: OperatorAndEVM{OperatorAddresses: []string{op}, EVMAddresses: []string{hexAddr}}}
	bz, err := json.Marshal(tx)
	if err != nil {
		panic(err)
	}
	bctx := ctx.WithConsensusParams(cmtproto.ConsensusParams{Abci: &cmtproto.ABCIParams{VoteExtensionsEnableHeight: 1}})
	_, perr := ph.PreBlocker(bctx, &abci.RequestFinalizeBlock{Height: 5, Txs: [][]byte{bz}})
	ndAssert(perr == nil, "preblock-returns-nil")
	got, gerr := bk.OperatorToEVMAddressMap.Get(ctx, op)
	ndAssert(gerr == nil && bytesEq20(got.EVMAddress, evmBytes), "listed-operator-registered-with-the-injected-address")
	_, oerr := bk.OperatorToEVMAddressMap.Get(ctx, other)
	ndAssert(oerr != nil, "no-other-operator-registered")
	ndReach("written")
	_ = bridgetypes.ModuleName
}

func bytesEq20(a, b []byte) bool {
	if len(a) != len(b) {
		return false
	}
	eq := true
	for i := range a {
		eq = ndAnd(eq, a[i] == b[i])
	}
	return eq
}

func commonAddressHex(a [20]byte) string { return gethcommon.Address(a).Hex() }

// c17InitialSigs: symbolically two arbitrary 65-byte signatures (public-key recovery is an arbitrary fixed function
// of hash and signature, so "both recover the same address" is one of the explored outcomes); natively two REAL
// signatures by one test key over the two initial-signature messages, so that a counterexample in which a vote's
// registration goes through can be replayed against the real recovery code.
func c17InitialSigs(i int) ([]byte, []byte) {
	if ndSymbolic() {
		return ndByteSlice(nm("sigA", i), 65), ndByteSlice(nm("sigB", i), 65)
	}
	keyBytes := make([]byte, 32)
	keyBytes[31] = byte(7 + i)
	key, err := gethcrypto.ToECDSA(keyBytes)
	if err != nil {
		panic(err)
	}
	sign := func(msg string) []byte {
		h1 := sha256.Sum256([]byte(msg))
		h2 := sha256.Sum256(h1[:])
		sig, err := gethcrypto.Sign(h2[:], key)
		if err != nil {
			panic(err)
		}
		return sig
	}
	return sign("TellorLayer: Initial bridge signature A"), sign("TellorLayer: Initial bridge signature B")
}
