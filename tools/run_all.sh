#!/bin/bash
# runs every property's check (tier from $1, default quick) on the current /repo tree and prints one line per property
tier=${1:-quick}
mkdir -p /tmp/runall
for p in $(python3 -c "import json;print(' '.join(c['property_id'] for c in json.load(open('/verif/MANIFEST.json'))['checks']))"); do
  s=$(date +%s)
  /verif/bin/verif check $p --tier $tier > /tmp/runall/$p.$tier.log 2>&1; rc=$?
  e=$(( $(date +%s) - s ))
  echo "$p exit=$rc ${e}s $(grep -c '^VIOLATION' /tmp/runall/$p.$tier.log) violations, $(grep -c '^INCONCLUSIVE' /tmp/runall/$p.$tier.log) inconclusive, $(grep -c '^KNOWN-FINDING' /tmp/runall/$p.$tier.log) known | $(grep '^SUMMARY' /tmp/runall/$p.$tier.log | cut -c1-160)"
done
