#!/bin/bash
# usage: seed_matrix.sh [tier] [seed ids...]
# For every seeded change under /verif/seeded: apply it in a scratch worktree of /repo (never in /repo itself), run the check
# of the property it breaks (plus the checks listed in ALSO) against that worktree, and record what was reported.
# Writes /verif/seeded/MATRIX.tsv (id, property checked, exit code, verdict, first VIOLATION/INCONCLUSIVE line).
export GOFLAGS=-mod=mod GOPROXY=off GOSUMDB=off GOTOOLCHAIN=local
tier=${1:-quick}; shift
ids="$@"; [ -z "$ids" ] && ids=$(ls /verif/seeded | grep -E '^C[0-9]+-[0-9]+$')
declare -A ALSO=( [C02-2]="C05" [C04-1]="C12" [C14-2]="C07" [C11-1]="C05" [C13-2]="C04" [C13-4]="C12" [C11-3]="C05" [C11-4]="C05" [C04-3]="C09" [C04-4]="C13" [C09-4]="C07" [C08-4]="C08" [C02-4]="C12" [C19-3]="C11" [C03-3]="C14" [C03-4]="C14" [C13-5]="C11" [C09-5]="C10" [C11-6]="C10" [C09-6]="C07" [C14-5]="C08" [C14-6]="C16" [C04-5]="C07" [C04-6]="C13" [C08-5]="C06" [C15-6]="C17" [C06-5]="C07" [C03-6]="C13" [C02-6]="C12" [C02-5]="C06" [C01-5]="C17" [C01-6]="C03" )
# MATRIX_TAG: a second instance can run beside the first (own worktree, output directory and result file)
wt=/tmp/wt/matrix$MATRIX_TAG; out=/tmp/matrix_out$MATRIX_TAG
rm -rf $out; mkdir -p $out /tmp/wt
git -C /repo worktree remove --force $wt 2>/dev/null
git -C /repo worktree add --detach $wt HEAD >/dev/null 2>&1 || { echo "cannot create worktree"; exit 2; }
res=/verif/seeded/MATRIX$MATRIX_TAG.tsv
[ "$#" -eq 0 ] && : > $res
for id in $ids; do
  d=/verif/seeded/$id
  prop=$(python3 -c "import json;print(json.load(open('$d/meta.json'))['breaks_property'])")
  if ! git -C $wt apply "$d/patch.diff" 2>/dev/null; then echo -e "$id\t$prop\t-\tPATCH-DOES-NOT-APPLY\t" | tee -a $res; continue; fi
  for p in $prop ${ALSO[$id]}; do
    VERIF_REPO=$wt VERIF_OUT=$out /verif/bin/verif check $p --tier $tier > $out/$id.$p.log 2>&1; rc=$?
    v=$(grep -c -E "^VIOLATION" $out/$id.$p.log)
    lab=$(grep -m1 -oE 'obligation=[^ ]+ label="[^"]*"' $out/$id.$p.log)
    inc=$(grep -m1 -E '^INCONCLUSIVE' $out/$id.$p.log | cut -c1-200)
    case $rc in 1) verdict=CAUGHT;; 0) verdict=missed;; *) verdict="engine-exit-$rc";; esac
    echo -e "$id\t$p\t$rc\t$verdict\tviolations=$v $lab ${inc}" | tee -a $res
  done
  git -C $wt checkout -- . ; git -C $wt clean -fdq
done
git -C /repo worktree remove --force $wt
