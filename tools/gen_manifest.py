#!/usr/bin/env python3
"""Regenerates /verif/MANIFEST.json from harness/obligations.json and harness/props_meta.json."""
import json, os
V='/verif'
props=[json.loads(l) for l in open(f'{V}/properties.jsonl')]
obs=json.load(open(f'{V}/harness/obligations.json'))
meta=json.load(open(f'{V}/harness/props_meta.json'))
claimed=sorted({o['property'] for o in obs if o['property'] in meta and meta[o['property']].get('claim',True)})
checks=[]
for p in claimed:
    m=meta[p]
    names=[o['name'] for o in obs if o['property']==p]
    checks.append({
      "property_id":p,
      "quick_cmd":f"/verif/bin/verif check {p} --tier quick",
      "thorough_cmd":f"/verif/bin/verif check {p} --tier thorough",
      "evidence_file":f"/verif/evidence/{p}.json",
      "replay_cmd_template":f"/verif/bin/verif replay {p} {{path}}",
      "engine":"symgo",
      "level_claimed":{"category":"model_checking","text":m['level_text'],"design_ref":m.get('design_ref','DESIGN.md section 6 (plan), section 10 and Appendix D (as built: obligations, bounds, kernels)')},
      "level_note":m['level_note'],
      "technique":m.get('technique',"bounded symbolic execution of the real Go functions (go/ssa -> SMT-LIB2), an SMT solver decides each assertion within the stated bounds (z3 5.1.0, with z3 4.8.12 and cvc5 1.0 raced on slow queries; first definite answer wins); counterexamples are replayed natively with go test -overlay before they are reported, and sampled path models are cross-checked against native runs every time"),
    })
na=[{"property_id":p['id'],"reason":meta.get(p['id'],{}).get('na_reason',"check not built yet (work in progress; see DESIGN.md section 6)")} for p in props if p['id'] not in claimed]
man={"version":1,
 "setup_cmd":"cd /verif/engine && GOFLAGS=-mod=mod GOPROXY=off GOSUMDB=off GOTOOLCHAIN=local go build -o /verif/bin/verif .",
 "hooks":{"guard":"verif","enable":"no hooks: harnesses are overlaid in-package at load time (go/packages Overlay) and at replay time (go test -overlay); nothing guarded lives in /repo","baseline_off_cmd":"cd /repo && GOFLAGS=-mod=mod GOPROXY=off GOSUMDB=off GOTOOLCHAIN=local go test -vet=off -count=1 -timeout 25m ./...","source_commits":[],"add_only":True},
 "engines":[{"name":"symgo","path":"/verif/engine","serves_properties":claimed,"kind_free_text":"Go SSA -> SMT-LIB2 bounded symbolic executor written for this task (x/tools v0.29.0 go/ssa), solver portfolio z3 5.1.0 (z3-new, primary) / z3 4.8.12 / cvc5 1.0, native replay and translator validation through go test -overlay"}],
 "checks":checks,
 "notes":"Every check regenerates its encoding from /repo's working tree. Exit 0: all registered assertions discharged (or violated only inside a listed known-finding region); exit 1 + VIOLATION line: a counterexample that reproduced natively; exit 2: engine error (load failure, vacuous harness, translator-validation mismatch). INCONCLUSIVE lines (solver unknown, unsupported construct, caps) are reported in the evidence and never counted as success.",
 "not_applicable":na}
json.dump(man,open(f'{V}/MANIFEST.json','w'),indent=1)
print("claimed:",claimed,"na:",[x['property_id'] for x in na])
