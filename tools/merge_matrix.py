#!/usr/bin/env python3
"""Merges the result files of tagged seed_matrix.sh instances (seeded/MATRIX<TAG>.tsv, in the order given) into
seeded/MATRIX.tsv: for every (seed, property checked) the LAST run wins (a seed is re-run after a check was
strengthened), rows are ordered by seed id. usage: merge_matrix.py B C D ..."""
import re, sys, os
V = '/verif/seeded/'
rows = {}
order = []
for tag in [''] + sys.argv[1:]:
    p = V + 'MATRIX%s.tsv' % tag
    if not os.path.exists(p):
        continue
    for l in open(p):
        f = l.rstrip('\n').split('\t')
        if len(f) < 5:
            continue
        k = (f[0], f[1])
        if k not in rows:
            order.append(k)
        rows[k] = l.rstrip('\n')
def key(k):
    m = re.match(r'C(\d+)-(\d+)', k[0])
    return (int(m.group(1)), int(m.group(2)), order.index(k))
with open(V + 'MATRIX.tsv', 'w') as out:
    for k in sorted(order, key=key):
        out.write(rows[k] + '\n')
print('merged %d rows for %d seeds' % (len(rows), len({k[0] for k in rows})))
