#!/usr/bin/env python3
"""Regenerates the generated regions of DESIGN.md: the seeded-change table (from seeded/*/meta.json and
seeded/MATRIX.tsv, written by tools/seed_matrix.sh) and Appendix D (from harness/obligations.json)."""
import json, os, re, glob
V = '/verif'
s = open(V + '/DESIGN.md').read()

def region(name, body):
    global s
    b, e = '<!-- BEGIN:%s -->' % name, '<!-- END:%s -->' % name
    if b in s:
        s = s[:s.index(b) + len(b)] + '\n' + body + '\n' + s[s.index(e):]
    else:
        raise SystemExit('marker %s missing' % name)

# seed table
matrix = {}
if os.path.exists(V + '/seeded/MATRIX.tsv'):
    for l in open(V + '/seeded/MATRIX.tsv'):
        f = l.rstrip('\n').split('\t')
        if len(f) >= 5:
            matrix.setdefault(f[0], []).append(f)
rows = ['| seed | breaks | change (one line) | quick checks run | verdict |', '|---|---|---|---|---|']
def key(d):
    m = re.match(r'C(\d+)-(\d+)', d)
    return (int(m.group(1)), int(m.group(2)))
for d in sorted([os.path.basename(p) for p in glob.glob(V + '/seeded/C*-*')], key=key):
    meta = json.load(open('%s/seeded/%s/meta.json' % (V, d)))
    one = meta.get('one_line') or ''
    if not one:
        notes = open('%s/seeded/%s/notes.md' % (V, d)).read() if os.path.exists('%s/seeded/%s/notes.md' % (V, d)) else ''
        m = re.search(r'^#\s*(.+)$', notes, re.M)
        one = m.group(1).strip() if m else ''
        one = re.sub(r'^C\d+\S*\s*[—:-]+\s*', '', one)
    res = matrix.get(d, [])
    checks = ', '.join(r[1] for r in res) or '-'
    verdicts = []
    for r in res:
        lab = re.search(r'obligation=(\S+) label="([^"]*)"', r[4])
        if r[3] == 'CAUGHT':
            verdicts.append('**caught** by %s (%s)' % (lab.group(1), lab.group(2)) if lab else '**caught** (%s)' % r[1])
        elif r[3] == 'missed':
            inc = 'inconclusive: ' + r[4].split('INCONCLUSIVE', 1)[1][:110].strip() if 'INCONCLUSIVE' in r[4] else ''
            verdicts.append('not caught by %s%s' % (r[1], ' (' + inc + ')' if inc else ''))
        else:
            verdicts.append('%s: %s' % (r[1], r[3]))
    note = meta.get('catch_note', '')
    rows.append('| %s | %s | %s | %s | %s |' % (d, meta['breaks_property'], one.replace('|', '/')[:150], checks, '; '.join(verdicts) + ((' - ' + note) if note else '')))
region('SEEDTABLE', '\n'.join(rows))

# appendix D
obs = json.load(open(V + '/harness/obligations.json'))
out = []
cur = None
for o in sorted(obs, key=lambda x: (x['property'], x['name'])):
    if o['property'] != cur:
        cur = o['property']
        out.append('\n### %s\n' % cur)
    opts = [k for k in ('abstract', 'concretize', 'no_native') if o.get(k)]
    if o.get('timeout_s'):
        opts.append('timeout %ds' % o['timeout_s'])
    out.append('* **%s** (`%s.%s`, tier %s%s)  \n  %s  \n  *Bounds:* %s  \n  *Kernels:* %s' % (
        o['name'], o['pkg'], o['harness'], o.get('tier', 'quick'), (', ' + ', '.join(opts)) if opts else '',
        o.get('desc', ''), o.get('bounds', ''), ', '.join('`%s`' % k for k in o.get('kernels', []))))
region('APPENDIX-D', '\n'.join(out))
open(V + '/DESIGN.md', 'w').write(s)
print('DESIGN.md regions regenerated: %d seeds, %d obligations' % (len(rows) - 2, len(obs)))
