#!/bin/bash
# usage: confirm_seed.sh <seed-id> : confirms a seeded change in a scratch worktree and stores it under /verif/seeded/<id>/
# (a) applies to HEAD and builds, (b) existing tests of the touched packages pass with it, (c) the demo fails with it
# and passes without it.
export GOFLAGS=-mod=mod GOPROXY=off GOSUMDB=off GOTOOLCHAIN=local
id=$1; src=/tmp/seeded/$id; wt=/tmp/wt/confirm
[ -f $src/patch.diff ] || { echo "$id: no patch"; exit 2; }
if [ ! -d $wt ]; then git -C /repo worktree add --detach $wt HEAD >/dev/null 2>&1 || exit 2; fi
cd $wt && git checkout -q --detach $(git -C /repo rev-parse HEAD) && git checkout -- . && git clean -fdq
pk=$(grep -m1 "^package " $src/demo_test.go | awk '{print $2}')
first=$(grep -m1 "^+++ b/" $src/patch.diff | sed 's/+++ b\///')
[ -n "$DDIR" ] && pk=__override__
case "$pk" in
  __override__) ddir=$DDIR ;;
  integration_test) ddir=tests/integration ;;
  types) ddir=daemons/server/types/pricefeed ;;
  *) ddir=$(dirname $first) ;;
esac
mods=$(grep "^+++ b/" $src/patch.diff | sed 's/+++ b\///' | xargs -n1 dirname | sort -u | sed 's/^/.\//' | tr '\n' ' ')
res() { echo "$id: $1"; }
git apply --check $src/patch.diff 2>/dev/null || { res "PATCH-DOES-NOT-APPLY"; exit 1; }
git apply $src/patch.diff
go build ./... >/tmp/confirm_$id.build 2>&1 || { res "BUILD-FAILS"; git checkout -- .; exit 1; }
# existing tests: touched packages, their module's keeper/types siblings, and the integration suite
tpk="$mods ./tests/integration/..."
go test -vet=off -count=1 $tpk >/tmp/confirm_$id.existing 2>&1; ex=$?
cp $src/demo_test.go $ddir/zz_demo_test.go
go test -vet=off -count=1 ./$ddir/ >/tmp/confirm_$id.demo_with 2>&1; with=$?
git checkout -- . 
go test -vet=off -count=1 ./$ddir/ >/tmp/confirm_$id.demo_without 2>&1; without=$?
rm -f $ddir/zz_demo_test.go
ok=false; [ $ex -eq 0 ] && [ $with -ne 0 ] && [ $without -eq 0 ] && ok=true
res "existing_tests_exit=$ex demo_with_patch_exit=$with demo_without_patch_exit=$without confirmed=$ok demo_dir=$ddir"
if $ok; then
  mkdir -p /verif/seeded/$id && cp $src/patch.diff $src/demo_test.go /verif/seeded/$id/ && cp $src/notes.md /verif/seeded/$id/notes.md
  python3 - "$id" "$ddir" "$tpk" <<'PY'
import json,sys,re
id,ddir,tpk=sys.argv[1:4]
notes=open(f'/tmp/seeded/{id}/notes.md').read()
prop=id.split('-')[0]
meta={"id":id,"breaks_property":prop,"patch":"patch.diff","demonstration":"demo_test.go","demonstration_dir":ddir,
 "needs_to_manifest":(re.search(r'(?is)(need[^\n]*:?\s*\n?.{0,600})',notes) or [None,''])[1].strip()[:700],
 "confirmed":{"applies_to_repo_head":True,"go_build":"ok","existing_tests":f"go test -vet=off -count=1 {tpk} : pass with the change","demo_with_change":f"go test ./{ddir}/ : FAIL","demo_without_change":f"go test ./{ddir}/ : pass"},
 "produced_by":"independent sub-agent given only the property text and a scratch worktree"}
json.dump(meta,open(f'/verif/seeded/{id}/meta.json','w'),indent=1)
PY
fi
