#!/bin/bash
# usage: try_seed.sh <seed dir> <PROP> [extra verif args]  -- applies the patch to /repo, runs the check, reverts
d=$1; p=$2; shift 2
if ! git -C /repo apply --check "$d/patch.diff" 2>/dev/null; then echo "PATCH DOES NOT APPLY: $d"; exit 3; fi
git -C /repo apply "$d/patch.diff"
/verif/bin/verif check $p "$@" > /tmp/try_seed_$$.log 2>&1; rc=$?
git -C /repo checkout -- . ; git -C /repo status --short | grep -v '^??' 
grep -E "^VIOLATION|^KNOWN|^INCONCL|^SUMMARY|^ENGINE|^TRANSLATOR|^VACUOUS|ERROR" /tmp/try_seed_$$.log | cut -c1-300 | head -12
echo "exit=$rc"; rm -f /tmp/try_seed_$$.log
