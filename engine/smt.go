package main

import (
	"bufio"
	"os"
	"fmt"
	"io"
	"math/big"
	"os/exec"
	"strings"
	"sync"
	"time"
)

// Term is an SMT-LIB term of sort Int or Bool with constant folding.
type Term struct {
	S     string
	Bool  bool // sort
	Const bool
	I     *big.Int
	B     bool
	V     []int // sorted ids of the solver constants occurring in S
	NL    bool  // contains a product/quotient of two non-constant terms
	// light structure kept for exact division by constants: op '+' (args a,b), '-' (a,b), '*' (args x, constant c),
	// 'i' (ite: cond, a, b); 0 = opaque
	op   byte
	args []Term
}

// divExact returns t/m when that quotient is exact for EVERY value of the variables, as decided from the term's
// structure (products by constants, sums, differences and ite of such); ok=false otherwise.
func divExact(t Term, m *big.Int) (Term, bool) {
	if m.Sign() == 0 {
		return Term{}, false
	}
	if t.Const {
		q, r := new(big.Int).QuoRem(t.I, m, new(big.Int))
		if r.Sign() == 0 {
			return IntB(q), true
		}
		return Term{}, false
	}
	switch t.op {
	case '*':
		c := t.args[1].I
		q, r := new(big.Int).QuoRem(c, m, new(big.Int))
		if r.Sign() == 0 {
			return Mul(t.args[0], IntB(q)), true
		}
		// m = g * m' with g | c: (x*c)/m = (x*(c/g))/m' only if x itself divisible: give up
		return Term{}, false
	case '+', '-':
		a, ok1 := divExact(t.args[0], m)
		b, ok2 := divExact(t.args[1], m)
		if ok1 && ok2 {
			if t.op == '+' {
				return Add(a, b), true
			}
			return Sub(a, b), true
		}
	case 'i':
		a, ok1 := divExact(t.args[1], m)
		b, ok2 := divExact(t.args[2], m)
		if ok1 && ok2 {
			return Ite(t.args[0], a, b), true
		}
	}
	return Term{}, false
}

// content returns g >= 1 such that t is a multiple of g for every value of its variables (from the structure).
func content(t Term) *big.Int {
	if t.Const {
		if t.I.Sign() == 0 {
			return big.NewInt(0) // gcd identity
		}
		return new(big.Int).Abs(t.I)
	}
	switch t.op {
	case '*':
		return new(big.Int).Mul(content(t.args[0]), new(big.Int).Abs(t.args[1].I))
	case '+', '-':
		return new(big.Int).GCD(nil, nil, content(t.args[0]), content(t.args[1]))
	case 'i':
		return new(big.Int).GCD(nil, nil, content(t.args[1]), content(t.args[2]))
	}
	return big.NewInt(1)
}

var varMu sync.RWMutex
var varIDs = map[string]int{}
var varNames []string

func varID(name string) int {
	varMu.RLock()
	id, ok := varIDs[name]
	varMu.RUnlock()
	if ok {
		return id
	}
	varMu.Lock()
	defer varMu.Unlock()
	if id, ok := varIDs[name]; ok {
		return id
	}
	id = len(varNames)
	varIDs[name] = id
	varNames = append(varNames, name)
	return id
}

func varName(id int) string {
	varMu.RLock()
	defer varMu.RUnlock()
	return varNames[id]
}

func anyNL(ts ...Term) bool {
	for _, t := range ts {
		if t.NL {
			return true
		}
	}
	return false
}

func unionV(ts ...Term) []int {
	var out []int
	for _, t := range ts {
		if len(t.V) == 0 {
			continue
		}
		if out == nil {
			out = t.V
			continue
		}
		merged := make([]int, 0, len(out)+len(t.V))
		i, j := 0, 0
		for i < len(out) && j < len(t.V) {
			switch {
			case out[i] < t.V[j]:
				merged = append(merged, out[i])
				i++
			case out[i] > t.V[j]:
				merged = append(merged, t.V[j])
				j++
			default:
				merged = append(merged, out[i])
				i++
				j++
			}
		}
		merged = append(merged, out[i:]...)
		merged = append(merged, t.V[j:]...)
		out = merged
	}
	return out
}

func IntC(i int64) Term        { return IntB(big.NewInt(i)) }
func IntB(i *big.Int) Term     { return Term{S: intLit(i), Const: true, I: new(big.Int).Set(i)} }
func BoolC(b bool) Term        { return Term{S: fmt.Sprint(b), Bool: true, Const: true, B: b} }
func IntVar(name string) Term  { return Term{S: name, V: []int{varID(name)}} }
func BoolVar(name string) Term { return Term{S: name, Bool: true, V: []int{varID(name)}} }

func intLit(i *big.Int) string {
	if i.Sign() < 0 {
		return "(- " + new(big.Int).Neg(i).String() + ")"
	}
	return i.String()
}

func app(op string, ts ...Term) string {
	var sb strings.Builder
	sb.WriteString("(")
	sb.WriteString(op)
	for _, t := range ts {
		sb.WriteString(" ")
		sb.WriteString(t.S)
	}
	sb.WriteString(")")
	return sb.String()
}

func Add(a, b Term) Term {
	if a.Const && b.Const {
		return IntB(new(big.Int).Add(a.I, b.I))
	}
	if a.Const && a.I.Sign() == 0 {
		return b
	}
	if b.Const && b.I.Sign() == 0 {
		return a
	}
	// x + (y - x) = y ; (y - x) + x = y
	if b.op == '-' && b.args[1].S == a.S {
		return b.args[0]
	}
	if a.op == '-' && a.args[1].S == b.S {
		return a.args[0]
	}
	return Term{S: app("+", a, b), V: unionV(a, b), NL: anyNL(a, b), op: '+', args: []Term{a, b}}
}
func Sub(a, b Term) Term {
	if a.Const && b.Const {
		return IntB(new(big.Int).Sub(a.I, b.I))
	}
	if b.Const && b.I.Sign() == 0 {
		return a
	}
	if a.S == b.S {
		return IntC(0)
	}
	// (x + y) - x = y ; (x + y) - y = x ; x - (x - y) = y
	if a.op == '+' && a.args[0].S == b.S {
		return a.args[1]
	}
	if a.op == '+' && a.args[1].S == b.S {
		return a.args[0]
	}
	if b.op == '-' && b.args[0].S == a.S {
		return b.args[1]
	}
	return Term{S: app("-", a, b), V: unionV(a, b), NL: anyNL(a, b), op: '-', args: []Term{a, b}}
}
func Mul(a, b Term) Term {
	if a.Const && b.Const {
		return IntB(new(big.Int).Mul(a.I, b.I))
	}
	if a.Const && !b.Const {
		a, b = b, a
	}
	if b.Const {
		if b.I.Sign() == 0 {
			return IntC(0)
		}
		if b.I.Cmp(big.NewInt(1)) == 0 {
			return a
		}
		if a.op == '*' { // (x*c1)*c2 = x*(c1*c2)
			return Mul(a.args[0], IntB(new(big.Int).Mul(a.args[1].I, b.I)))
		}
		return Term{S: app("*", a, b), V: a.V, NL: a.NL, op: '*', args: []Term{a, b}}
	}
	return Term{S: app("*", a, b), V: unionV(a, b), NL: true}
}
func Neg(a Term) Term { return Sub(IntC(0), a) }

// EDiv / EMod: SMT-LIB (euclidean for positive divisor) semantics.
func EDiv(a, b Term) Term {
	if a.Const && b.Const && b.I.Sign() != 0 {
		q, _ := new(big.Int).DivMod(a.I, b.I, new(big.Int))
		return IntB(q)
	}
	return Term{S: app("div", a, b), V: unionV(a, b), NL: anyNL(a, b) || !b.Const}
}
func EMod(a, b Term) Term {
	if a.Const && b.Const && b.I.Sign() != 0 {
		_, m := new(big.Int).DivMod(a.I, b.I, new(big.Int))
		return IntB(m)
	}
	return Term{S: app("mod", a, b), V: unionV(a, b), NL: anyNL(a, b) || !b.Const}
}

// TDiv: Go-style truncated division (b != 0 assumed by caller).
func TDiv(a, b Term) Term {
	if a.Const && b.Const && b.I.Sign() != 0 {
		return IntB(new(big.Int).Quo(a.I, b.I))
	}
	// trunc(a/b) = sign * (|a| div |b|)
	absA, absB := Abs(a), Abs(b)
	q := EDiv(absA, absB)
	same := Or(And(Ge(a, IntC(0)), Gt(b, IntC(0))), And(Lt(a, IntC(0)), Lt(b, IntC(0))))
	return Ite(same, q, Neg(q))
}
func TRem(a, b Term) Term {
	if a.Const && b.Const && b.I.Sign() != 0 {
		return IntB(new(big.Int).Rem(a.I, b.I))
	}
	return Sub(a, Mul(b, TDiv(a, b)))
}
func Abs(a Term) Term {
	if a.Const {
		return IntB(new(big.Int).Abs(a.I))
	}
	return Ite(Lt(a, IntC(0)), Neg(a), a)
}

func cmp(op string, a, b Term, f func(c int) bool) Term {
	if a.Const && b.Const {
		return BoolC(f(a.I.Cmp(b.I)))
	}
	// cancel a common positive constant factor: (x*g) op (y*g) <=> x op y
	if g := new(big.Int).GCD(nil, nil, content(a), content(b)); g.Cmp(big.NewInt(1)) > 0 {
		if a2, ok1 := divExact(a, g); ok1 {
			if b2, ok2 := divExact(b, g); ok2 {
				a, b = a2, b2
				if a.Const && b.Const {
					return BoolC(f(a.I.Cmp(b.I)))
				}
			}
		}
	}
	return Term{S: app(op, a, b), Bool: true, V: unionV(a, b), NL: anyNL(a, b), op: cmpOp[op], args: []Term{a, b}}
}

var cmpOp = map[string]byte{"<": '<', "<=": 'L', ">": '>', ">=": 'G', "=": '='}

func Lt(a, b Term) Term { return cmp("<", a, b, func(c int) bool { return c < 0 }) }
func Le(a, b Term) Term { return cmp("<=", a, b, func(c int) bool { return c <= 0 }) }
func Gt(a, b Term) Term { return cmp(">", a, b, func(c int) bool { return c > 0 }) }
func Ge(a, b Term) Term { return cmp(">=", a, b, func(c int) bool { return c >= 0 }) }
func Eq(a, b Term) Term {
	if a.Bool {
		if a.Const && b.Const {
			return BoolC(a.B == b.B)
		}
		if a.S == b.S {
			return BoolC(true)
		}
		return Term{S: app("=", a, b), Bool: true, V: unionV(a, b), NL: anyNL(a, b)}
	}
	if a.S == b.S {
		return BoolC(true)
	}
	return cmp("=", a, b, func(c int) bool { return c == 0 })
}
func Not(a Term) Term {
	if a.Const {
		return BoolC(!a.B)
	}
	if a.op == '!' {
		return a.args[0]
	}
	if strings.HasPrefix(a.S, "(not ") {
		return Term{S: a.S[5 : len(a.S)-1], Bool: true, V: a.V, NL: a.NL}
	}
	return Term{S: app("not", a), Bool: true, V: a.V, NL: a.NL, op: '!', args: []Term{a}}
}
func And(a, b Term) Term {
	if a.Const {
		if a.B {
			return b
		}
		return BoolC(false)
	}
	if b.Const {
		if b.B {
			return a
		}
		return BoolC(false)
	}
	return Term{S: app("and", a, b), Bool: true, V: unionV(a, b), NL: anyNL(a, b), op: '&', args: []Term{a, b}}
}
func Or(a, b Term) Term {
	if a.Const {
		if a.B {
			return BoolC(true)
		}
		return b
	}
	if b.Const {
		if b.B {
			return BoolC(true)
		}
		return a
	}
	return Term{S: app("or", a, b), Bool: true, V: unionV(a, b), NL: anyNL(a, b)}
}
func Ite(c, a, b Term) Term {
	if c.Const {
		if c.B {
			return a
		}
		return b
	}
	if a.S == b.S {
		return a
	}
	t := Term{S: app("ite", c, a, b), Bool: a.Bool, V: unionV(c, a, b), NL: anyNL(c, a, b)}
	if !a.Bool {
		t.op, t.args = 'i', []Term{c, a, b}
	}
	return t
}

// Solver drives one z3 process over pipes.
type Solver struct {
	cmd     *exec.Cmd
	in      io.WriteCloser
	out     *bufio.Reader
	Queries int
	sent    int
	Unknown int
	Errors  []string
	Time    time.Duration
	log     io.Writer
}

func NewSolver(bin string, args ...string) (*Solver, error) {
	cmd := exec.Command(bin, args...)
	in, err := cmd.StdinPipe()
	if err != nil {
		return nil, err
	}
	out, err := cmd.StdoutPipe()
	if err != nil {
		return nil, err
	}
	cmd.Stderr = cmd.Stdout
	if err := cmd.Start(); err != nil {
		return nil, err
	}
	sv := &Solver{cmd: cmd, in: in, out: bufio.NewReader(out)}
	if d := os.Getenv("VERIF_SMTLOG"); d != "" {
		solverSeq++
		if f, err := os.Create(fmt.Sprintf("%s/solver-%d-%d.smt2", d, os.Getpid(), solverSeq)); err == nil {
			sv.log = f
		}
	}
	return sv, nil
}

var solverSeq int

var slowLog = os.Getenv("VERIF_SLOWLOG") != ""

func (s *Solver) Send(line string) {
	s.sent++
	if s.log != nil {
		fmt.Fprintln(s.log, line)
	}
	io.WriteString(s.in, line+"\n")
}

func (s *Solver) readLine() string {
	l, err := s.out.ReadString('\n')
	if err != nil {
		panic("solver died: " + err.Error())
	}
	return strings.TrimSpace(l)
}

// Check returns "sat", "unsat" or "unknown"; any (error line => "unknown".
func (s *Solver) Check() string {
	t0 := time.Now()
	s.Queries++
	s.Send("(check-sat)")
	for {
		l := s.readLine()
		switch {
		case l == "sat" || l == "unsat" || l == "unknown":
			s.Time += time.Since(t0)
			if l == "unknown" {
				s.Unknown++
			}
			if slowLog && time.Since(t0) > 500*time.Millisecond {
				fmt.Fprintf(os.Stderr, "SLOW %.2fs %s (assertions sent so far: %d)\n", time.Since(t0).Seconds(), l, s.sent)
			}
			return l
		case strings.HasPrefix(l, "(error"):
			s.Errors = append(s.Errors, l)
			s.Time += time.Since(t0)
			s.Unknown++
			return "unknown"
		}
	}
}

// GetValues asks for the values of the given constant names (after sat).
func (s *Solver) GetValues(names []string) map[string]string {
	res := map[string]string{}
	for _, n := range names {
		s.Send("(get-value (" + n + "))")
		// read balanced s-expression
		var sb strings.Builder
		depth := 0
		started := false
		for !started || depth > 0 {
			l := s.readLine()
			for _, c := range l {
				if c == '(' {
					depth++
					started = true
				} else if c == ')' {
					depth--
				}
			}
			sb.WriteString(l)
			sb.WriteString(" ")
		}
		v := strings.TrimSpace(sb.String())
		// ((name value))
		v = strings.TrimPrefix(v, "((")
		v = strings.TrimSuffix(v, "))")
		v = strings.TrimSpace(strings.TrimPrefix(v, n))
		res[n] = v
	}
	return res
}

// GetValueTerm evaluates an arbitrary term under the current model.
func (s *Solver) GetValueTerm(term string) string {
	s.Send("(get-value (" + term + "))")
	var sb strings.Builder
	depth := 0
	started := false
	for !started || depth > 0 {
		l := s.readLine()
		for _, c := range l {
			if c == '(' {
				depth++
				started = true
			} else if c == ')' {
				depth--
			}
		}
		sb.WriteString(l)
		sb.WriteString(" ")
	}
	v := strings.TrimSpace(sb.String())
	v = strings.TrimSuffix(strings.TrimPrefix(v, "(("), "))")
	v = strings.TrimSpace(strings.TrimPrefix(v, term))
	return v
}

func (s *Solver) Close() { s.Send("(exit)"); s.cmd.Wait() }
