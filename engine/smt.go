package main

import (
	"bufio"
	"os"
	"fmt"
	"io"
	"math/big"
	"os/exec"
	"strings"
	"sync"
	"time"
)

// Term is an SMT-LIB term of sort Int or Bool with constant folding.
type Term struct {
	S     string
	Bool  bool // sort
	Const bool
	I     *big.Int
	B     bool
	V     []int // sorted ids of the solver constants occurring in S
	NL    bool  // contains a product/quotient of two non-constant terms
	// light structure kept for exact division by constants: op '+' (args a,b), '-' (a,b), '*' (args x, constant c),
	// 'i' (ite: cond, a, b); 0 = opaque
	op   byte
	args []Term
}

// divExact returns t/m when that quotient is exact for EVERY value of the variables, as decided from the term's
// structure (products by constants, sums, differences and ite of such); ok=false otherwise.
func divExact(t Term, m *big.Int) (Term, bool) {
	if m.Sign() == 0 {
		return Term{}, false
	}
	if t.Const {
		q, r := new(big.Int).QuoRem(t.I, m, new(big.Int))
		if r.Sign() == 0 {
			return IntB(q), true
		}
		return Term{}, false
	}
	switch t.op {
	case '*':
		c := t.args[1].I
		q, r := new(big.Int).QuoRem(c, m, new(big.Int))
		if r.Sign() == 0 {
			return Mul(t.args[0], IntB(q)), true
		}
		// m = g * m' with g | c: (x*c)/m = (x*(c/g))/m' only if x itself divisible: give up
		return Term{}, false
	case '+', '-':
		a, ok1 := divExact(t.args[0], m)
		b, ok2 := divExact(t.args[1], m)
		if ok1 && ok2 {
			if t.op == '+' {
				return Add(a, b), true
			}
			return Sub(a, b), true
		}
	case 'i':
		a, ok1 := divExact(t.args[1], m)
		b, ok2 := divExact(t.args[2], m)
		if ok1 && ok2 {
			return Ite(t.args[0], a, b), true
		}
	}
	return Term{}, false
}

// content returns g >= 1 such that t is a multiple of g for every value of its variables (from the structure).
func content(t Term) *big.Int {
	if t.Const {
		if t.I.Sign() == 0 {
			return big.NewInt(0) // gcd identity
		}
		return new(big.Int).Abs(t.I)
	}
	switch t.op {
	case '*':
		return new(big.Int).Mul(content(t.args[0]), new(big.Int).Abs(t.args[1].I))
	case '+', '-':
		return new(big.Int).GCD(nil, nil, content(t.args[0]), content(t.args[1]))
	case 'i':
		return new(big.Int).GCD(nil, nil, content(t.args[1]), content(t.args[2]))
	}
	return big.NewInt(1)
}

var varMu sync.RWMutex
var varIDs = map[string]int{}
var varNames []string

func varID(name string) int {
	varMu.RLock()
	id, ok := varIDs[name]
	varMu.RUnlock()
	if ok {
		return id
	}
	varMu.Lock()
	defer varMu.Unlock()
	if id, ok := varIDs[name]; ok {
		return id
	}
	id = len(varNames)
	varIDs[name] = id
	varNames = append(varNames, name)
	return id
}

func varName(id int) string {
	varMu.RLock()
	defer varMu.RUnlock()
	return varNames[id]
}

func anyNL(ts ...Term) bool {
	for _, t := range ts {
		if t.NL {
			return true
		}
	}
	return false
}

func unionV(ts ...Term) []int {
	var out []int
	for _, t := range ts {
		if len(t.V) == 0 {
			continue
		}
		if out == nil {
			out = t.V
			continue
		}
		merged := make([]int, 0, len(out)+len(t.V))
		i, j := 0, 0
		for i < len(out) && j < len(t.V) {
			switch {
			case out[i] < t.V[j]:
				merged = append(merged, out[i])
				i++
			case out[i] > t.V[j]:
				merged = append(merged, t.V[j])
				j++
			default:
				merged = append(merged, out[i])
				i++
				j++
			}
		}
		merged = append(merged, out[i:]...)
		merged = append(merged, t.V[j:]...)
		out = merged
	}
	return out
}

func IntC(i int64) Term        { return IntB(big.NewInt(i)) }
func IntB(i *big.Int) Term     { return Term{S: intLit(i), Const: true, I: new(big.Int).Set(i)} }
func BoolC(b bool) Term        { return Term{S: fmt.Sprint(b), Bool: true, Const: true, B: b} }
func IntVar(name string) Term  { return Term{S: name, V: []int{varID(name)}} }
func BoolVar(name string) Term { return Term{S: name, Bool: true, V: []int{varID(name)}} }

func intLit(i *big.Int) string {
	if i.Sign() < 0 {
		return "(- " + new(big.Int).Neg(i).String() + ")"
	}
	return i.String()
}

func app(op string, ts ...Term) string {
	var sb strings.Builder
	sb.WriteString("(")
	sb.WriteString(op)
	for _, t := range ts {
		sb.WriteString(" ")
		sb.WriteString(t.S)
	}
	sb.WriteString(")")
	return sb.String()
}

func Add(a, b Term) Term {
	if a.Const && b.Const {
		return IntB(new(big.Int).Add(a.I, b.I))
	}
	if a.Const && a.I.Sign() == 0 {
		return b
	}
	if b.Const && b.I.Sign() == 0 {
		return a
	}
	// x + (y - x) = y ; (y - x) + x = y
	if b.op == '-' && b.args[1].S == a.S {
		return b.args[0]
	}
	if a.op == '-' && a.args[1].S == b.S {
		return a.args[0]
	}
	return Term{S: app("+", a, b), V: unionV(a, b), NL: anyNL(a, b), op: '+', args: []Term{a, b}}
}
func Sub(a, b Term) Term {
	if a.Const && b.Const {
		return IntB(new(big.Int).Sub(a.I, b.I))
	}
	if b.Const && b.I.Sign() == 0 {
		return a
	}
	if a.S == b.S {
		return IntC(0)
	}
	// (x + y) - x = y ; (x + y) - y = x ; x - (x - y) = y
	if a.op == '+' && a.args[0].S == b.S {
		return a.args[1]
	}
	if a.op == '+' && a.args[1].S == b.S {
		return a.args[0]
	}
	if b.op == '-' && b.args[0].S == a.S {
		return b.args[1]
	}
	return Term{S: app("-", a, b), V: unionV(a, b), NL: anyNL(a, b), op: '-', args: []Term{a, b}}
}
func Mul(a, b Term) Term {
	if a.Const && b.Const {
		return IntB(new(big.Int).Mul(a.I, b.I))
	}
	if a.Const && !b.Const {
		a, b = b, a
	}
	if b.Const {
		if b.I.Sign() == 0 {
			return IntC(0)
		}
		if b.I.Cmp(big.NewInt(1)) == 0 {
			return a
		}
		if a.op == '*' { // (x*c1)*c2 = x*(c1*c2)
			return Mul(a.args[0], IntB(new(big.Int).Mul(a.args[1].I, b.I)))
		}
		return Term{S: app("*", a, b), V: a.V, NL: a.NL, op: '*', args: []Term{a, b}}
	}
	return Term{S: app("*", a, b), V: unionV(a, b), NL: true}
}
func Neg(a Term) Term { return Sub(IntC(0), a) }

// EDiv / EMod: SMT-LIB (euclidean for positive divisor) semantics.
func EDiv(a, b Term) Term {
	if a.Const && b.Const && b.I.Sign() != 0 {
		q, _ := new(big.Int).DivMod(a.I, b.I, new(big.Int))
		return IntB(q)
	}
	return Term{S: app("div", a, b), V: unionV(a, b), NL: anyNL(a, b) || !b.Const}
}
func EMod(a, b Term) Term {
	if a.Const && b.Const && b.I.Sign() != 0 {
		_, m := new(big.Int).DivMod(a.I, b.I, new(big.Int))
		return IntB(m)
	}
	return Term{S: app("mod", a, b), V: unionV(a, b), NL: anyNL(a, b) || !b.Const}
}

// TDiv: Go-style truncated division (b != 0 assumed by caller).
func TDiv(a, b Term) Term {
	if a.Const && b.Const && b.I.Sign() != 0 {
		return IntB(new(big.Int).Quo(a.I, b.I))
	}
	// trunc(a/b) = sign * (|a| div |b|)
	absA, absB := Abs(a), Abs(b)
	q := EDiv(absA, absB)
	same := Or(And(Ge(a, IntC(0)), Gt(b, IntC(0))), And(Lt(a, IntC(0)), Lt(b, IntC(0))))
	return Ite(same, q, Neg(q))
}
func TRem(a, b Term) Term {
	if a.Const && b.Const && b.I.Sign() != 0 {
		return IntB(new(big.Int).Rem(a.I, b.I))
	}
	return Sub(a, Mul(b, TDiv(a, b)))
}
func Abs(a Term) Term {
	if a.Const {
		return IntB(new(big.Int).Abs(a.I))
	}
	return Ite(Lt(a, IntC(0)), Neg(a), a)
}

func cmp(op string, a, b Term, f func(c int) bool) Term {
	if a.Const && b.Const {
		return BoolC(f(a.I.Cmp(b.I)))
	}
	if a.S == b.S {
		return BoolC(f(0))
	}
	// cancel a common positive constant factor: (x*g) op (y*g) <=> x op y
	if g := new(big.Int).GCD(nil, nil, content(a), content(b)); g.Cmp(big.NewInt(1)) > 0 {
		if a2, ok1 := divExact(a, g); ok1 {
			if b2, ok2 := divExact(b, g); ok2 {
				a, b = a2, b2
				if a.Const && b.Const {
					return BoolC(f(a.I.Cmp(b.I)))
				}
			}
		}
	}
	return Term{S: app(op, a, b), Bool: true, V: unionV(a, b), NL: anyNL(a, b), op: cmpOp[op], args: []Term{a, b}}
}

var cmpOp = map[string]byte{"<": '<', "<=": 'L', ">": '>', ">=": 'G', "=": '='}

func Lt(a, b Term) Term { return cmp("<", a, b, func(c int) bool { return c < 0 }) }
func Le(a, b Term) Term { return cmp("<=", a, b, func(c int) bool { return c <= 0 }) }
func Gt(a, b Term) Term { return cmp(">", a, b, func(c int) bool { return c > 0 }) }
func Ge(a, b Term) Term { return cmp(">=", a, b, func(c int) bool { return c >= 0 }) }
func Eq(a, b Term) Term {
	if a.Bool {
		if a.Const && b.Const {
			return BoolC(a.B == b.B)
		}
		if a.S == b.S {
			return BoolC(true)
		}
		return Term{S: app("=", a, b), Bool: true, V: unionV(a, b), NL: anyNL(a, b)}
	}
	if a.S == b.S {
		return BoolC(true)
	}
	return cmp("=", a, b, func(c int) bool { return c == 0 })
}
func Not(a Term) Term {
	if a.Const {
		return BoolC(!a.B)
	}
	if a.op == '!' {
		return a.args[0]
	}
	if strings.HasPrefix(a.S, "(not ") {
		return Term{S: a.S[5 : len(a.S)-1], Bool: true, V: a.V, NL: a.NL}
	}
	return Term{S: app("not", a), Bool: true, V: a.V, NL: a.NL, op: '!', args: []Term{a}}
}
func And(a, b Term) Term {
	if a.Const {
		if a.B {
			return b
		}
		return BoolC(false)
	}
	if b.Const {
		if b.B {
			return a
		}
		return BoolC(false)
	}
	return Term{S: app("and", a, b), Bool: true, V: unionV(a, b), NL: anyNL(a, b), op: '&', args: []Term{a, b}}
}
func Or(a, b Term) Term {
	if a.Const {
		if a.B {
			return BoolC(true)
		}
		return b
	}
	if b.Const {
		if b.B {
			return BoolC(true)
		}
		return a
	}
	return Term{S: app("or", a, b), Bool: true, V: unionV(a, b), NL: anyNL(a, b)}
}
func Ite(c, a, b Term) Term {
	if c.Const {
		if c.B {
			return a
		}
		return b
	}
	if a.S == b.S {
		return a
	}
	t := Term{S: app("ite", c, a, b), Bool: a.Bool, V: unionV(c, a, b), NL: anyNL(c, a, b)}
	if !a.Bool {
		t.op, t.args = 'i', []Term{c, a, b}
	}
	return t
}

// proc is one solver process driven over pipes; its output lines arrive on a channel so that several
// processes can be raced.
type proc struct {
	kind  string // "z3-new" (primary), "z3" (4.8.12), "cvc5"
	cmd   *exec.Cmd
	in    io.WriteCloser
	lines chan string
	dead  bool
}

func startProc(kind string) (*proc, error) {
	var cmd *exec.Cmd
	switch kind {
	case "cvc5":
		cmd = exec.Command("cvc5", "--incremental", "--produce-models", "--lang=smt2")
	default:
		cmd = exec.Command(kind, "-in")
	}
	in, err := cmd.StdinPipe()
	if err != nil {
		return nil, err
	}
	out, err := cmd.StdoutPipe()
	if err != nil {
		return nil, err
	}
	cmd.Stderr = cmd.Stdout
	if err := cmd.Start(); err != nil {
		return nil, err
	}
	p := &proc{kind: kind, cmd: cmd, in: in, lines: make(chan string, 4096)}
	go func() {
		r := bufio.NewReaderSize(out, 1<<16)
		for {
			l, err := r.ReadString('\n')
			if l != "" {
				p.lines <- strings.TrimSpace(l)
			}
			if err != nil {
				close(p.lines)
				return
			}
		}
	}()
	return p, nil
}

func (p *proc) send(line string) { io.WriteString(p.in, line+"\n") }

func (p *proc) kill() {
	if p == nil || p.dead {
		return
	}
	p.dead = true
	p.cmd.Process.Kill()
	go func() {
		for range p.lines {
		}
		p.cmd.Wait()
	}()
}

// Solver is a small portfolio: the primary process (z3-new by default) receives every command; when it has not
// answered a (check-sat) within raceAfter, the same query (replayed from the recorded script) is given to the
// helper solvers (z3 4.8.12 and cvc5) and the first definite answer wins. Processes still busy after that are
// killed and restarted on demand. An answer is "sat"/"unsat" from any one solver; "unknown" only if none decides.
type Solver struct {
	bin     string
	prim    *proc
	helpers []*proc
	winner  *proc // process that answered the last Check (models are read from it)
	// script recording for replay
	incremental bool
	decls       []string // incremental: every declaration / option sent so far
	frame       []string // incremental: lines since the last (push 1); one-shot: lines since the last (reset)
	skipPop     bool     // the primary was restarted inside a push frame: drop the matching (pop 1)
	timeoutMs   int
	Queries     int
	Raced       int
	HelperWins  map[string]int
	sent        int
	Unknown     int
	Errors      []string
	Time        time.Duration
	log         io.Writer
}

var helperKinds = func() []string {
	if os.Getenv("VERIF_NOPORTFOLIO") != "" {
		return nil
	}
	var ks []string
	for _, k := range []string{"z3", "cvc5"} {
		if _, err := exec.LookPath(k); err == nil {
			ks = append(ks, k)
		}
	}
	return ks
}()

const raceAfter = 400 * time.Millisecond

func NewSolver(bin string, incremental bool) (*Solver, error) {
	p, err := startProc(bin)
	if err != nil {
		return nil, err
	}
	sv := &Solver{bin: bin, prim: p, incremental: incremental, timeoutMs: 30000, HelperWins: map[string]int{}}
	if d := os.Getenv("VERIF_SMTLOG"); d != "" {
		solverSeq++
		if f, err := os.Create(fmt.Sprintf("%s/solver-%d-%d.smt2", d, os.Getpid(), solverSeq)); err == nil {
			sv.log = f
		}
	}
	return sv, nil
}

var solverSeq int

var slowLog = os.Getenv("VERIF_SLOWLOG") != ""

func (s *Solver) Send(line string) {
	s.sent++
	if s.log != nil {
		fmt.Fprintln(s.log, line)
	}
	if s.incremental && line == "(pop 1)" && s.skipPop {
		// the primary was restarted inside this frame: there is nothing to pop
		s.skipPop = false
		s.frame = s.frame[:0]
		return
	}
	// restart a killed primary BEFORE recording the line (the replay must not contain it: it is sent below)
	s.ensurePrim()
	switch {
	case line == "(reset)":
		s.frame = s.frame[:0]
		s.decls = s.decls[:0]
	case s.incremental && (line == "(push 1)" || line == "(pop 1)"):
		s.frame = s.frame[:0]
	case strings.HasPrefix(line, "(set-option :timeout "):
		fmt.Sscanf(line, "(set-option :timeout %d)", &s.timeoutMs)
		s.decls = append(s.decls, line)
	case strings.HasPrefix(line, "(declare-") || strings.HasPrefix(line, "(define-"):
		s.decls = append(s.decls, line)
	case strings.HasPrefix(line, "(assert "):
		s.frame = append(s.frame, line)
	}
	s.prim.send(line)
}

// ensurePrim restarts a killed primary and restores what it must know (options and declarations; in one-shot
// mode also the assertions since the last reset).
func (s *Solver) ensurePrim() {
	if s.prim != nil && !s.prim.dead {
		return
	}
	p, err := startProc(s.bin)
	if err != nil {
		panic("cannot restart solver: " + err.Error())
	}
	s.prim = p
	for _, d := range s.decls {
		p.send(d)
	}
	if !s.incremental {
		for _, a := range s.frame {
			p.send(a)
		}
	}
}

// replayTo gives a helper the current query as a fresh problem.
func (s *Solver) replayTo(h *proc) {
	h.send("(reset)")
	if h.kind == "cvc5" {
		h.send("(set-logic ALL)")
	}
	for _, d := range s.decls {
		if strings.HasPrefix(d, "(set-option") {
			continue
		}
		h.send(d)
	}
	for _, a := range s.frame {
		h.send(a)
	}
	h.send("(check-sat)")
}

func isAnswer(l string) bool { return l == "sat" || l == "unsat" || l == "unknown" }

// Check returns "sat", "unsat" or "unknown"; an (error line from a solver counts as that solver's "unknown".
func (s *Solver) Check() string {
	t0 := time.Now()
	s.Queries++
	s.Send("(check-sat)")
	res := s.check(t0)
	s.Time += time.Since(t0)
	if res == "unknown" {
		s.Unknown++
	}
	if slowLog && time.Since(t0) > 500*time.Millisecond {
		w := ""
		if s.winner != nil {
			w = s.winner.kind
		}
		fmt.Fprintf(os.Stderr, "SLOW %.2fs %s by %s (lines sent so far: %d)\n", time.Since(t0).Seconds(), res, w, s.sent)
	}
	return res
}

func (s *Solver) check(t0 time.Time) string {
	s.winner = s.prim
	classify := func(l string, ok bool, p *proc) (string, bool) {
		if !ok {
			p.dead = true
			return "unknown", true
		}
		if isAnswer(l) {
			return l, true
		}
		if strings.HasPrefix(l, "(error") {
			if p == s.prim {
				s.Errors = append(s.Errors, l)
			}
			p.kill() // its answer to the pending (check-sat) must never be read as the answer to a later one
			return "unknown", true
		}
		return "", false
	}
	// phase 1: the primary alone
	timer := time.NewTimer(raceAfter)
	defer timer.Stop()
	primDone, primRes := false, ""
phase1:
	for {
		select {
		case l, ok := <-s.prim.lines:
			if r, done := classify(l, ok, s.prim); done {
				primDone, primRes = true, r
				break phase1
			}
		case <-timer.C:
			break phase1
		}
	}
	if primDone && primRes != "unknown" {
		return primRes
	}
	if len(helperKinds) == 0 {
		if primDone {
			return primRes
		}
		for {
			l, ok := <-s.prim.lines
			if r, done := classify(l, ok, s.prim); done {
				return r
			}
		}
	}
	// phase 2: race the helpers (and the primary if it is still working)
	s.Raced++
	for len(s.helpers) < len(helperKinds) {
		s.helpers = append(s.helpers, nil)
	}
	type runner struct {
		p    *proc
		done bool
	}
	var rs []*runner
	if !primDone {
		rs = append(rs, &runner{p: s.prim})
	}
	for i, k := range helperKinds {
		if s.helpers[i] == nil || s.helpers[i].dead {
			h, err := startProc(k)
			if err != nil {
				continue
			}
			s.helpers[i] = h
		}
		s.replayTo(s.helpers[i])
		rs = append(rs, &runner{p: s.helpers[i]})
	}
	deadline := time.NewTimer(time.Duration(s.timeoutMs) * time.Millisecond)
	defer deadline.Stop()
	result := "unknown"
	var win *proc
	for win == nil {
		pending := 0
		for _, r := range rs {
			if !r.done {
				pending++
			}
		}
		if pending == 0 {
			break
		}
		// wait on up to three channels
		var c [3]chan string
		var who [3]*runner
		n := 0
		for _, r := range rs {
			if !r.done && n < 3 {
				c[n], who[n] = r.p.lines, r
				n++
			}
		}
		var l string
		var ok bool
		var r *runner
		timedOut := false
		select {
		case l, ok = <-c[0]:
			r = who[0]
		case l, ok = <-c[1]:
			r = who[1]
		case l, ok = <-c[2]:
			r = who[2]
		case <-deadline.C:
			timedOut = true
		}
		if timedOut {
			break
		}
		if res, done := classify(l, ok, r.p); done {
			r.done = true
			if res != "unknown" {
				result, win = res, r.p
			}
		}
	}
	// whoever is still busy is killed (restarted on demand)
	for _, r := range rs {
		if !r.done {
			r.p.kill()
		}
	}
	if s.prim.dead && s.incremental {
		s.skipPop = true
	}
	if win != nil {
		s.winner = win
		if win != s.prim {
			s.HelperWins[win.kind]++
		}
	}
	return result
}

// readLine reads the next output line of the process that answered the last Check.
func (s *Solver) readLine() string {
	p := s.winner
	if p == nil || p.dead {
		panic("solver died")
	}
	l, ok := <-p.lines
	if !ok {
		panic("solver died")
	}
	return l
}

// sendW sends a model query to the process that answered the last Check.
func (s *Solver) sendW(line string) {
	if s.log != nil {
		fmt.Fprintln(s.log, "; to "+s.winner.kind+": "+line)
	}
	s.winner.send(line)
}

// GetValues asks for the values of the given constant names (after sat).
func (s *Solver) GetValues(names []string) map[string]string {
	res := map[string]string{}
	for _, n := range names {
		v := s.GetValueTerm(n)
		if strings.HasPrefix(v, "(error") || strings.Contains(v, "unknown constant") {
			continue // not part of the problem sent to the solver: any value will do (the native run uses zero)
		}
		res[n] = v
	}
	return res
}

// GetValueTerm evaluates an arbitrary term under the current model.
func (s *Solver) GetValueTerm(term string) string {
	s.sendW("(get-value (" + term + "))")
	var sb strings.Builder
	depth := 0
	started := false
	for !started || depth > 0 {
		l := s.readLine()
		for _, c := range l {
			if c == '(' {
				depth++
				started = true
			} else if c == ')' {
				depth--
			}
		}
		sb.WriteString(l)
		sb.WriteString(" ")
	}
	v := strings.TrimSpace(sb.String())
	v = strings.TrimSuffix(strings.TrimPrefix(v, "(("), "))")
	if strings.HasPrefix(v, term) {
		return strings.TrimSpace(strings.TrimPrefix(v, term))
	}
	// the solver echoed the term in its own spelling: the value is the last s-expression / token
	v = strings.TrimSpace(v)
	if strings.HasSuffix(v, ")") {
		depth := 0
		for i := len(v) - 1; i >= 0; i-- {
			if v[i] == ')' {
				depth++
			} else if v[i] == '(' {
				depth--
				if depth == 0 {
					return v[i:]
				}
			}
		}
		return v
	}
	if i := strings.LastIndexAny(v, " \t"); i >= 0 {
		return v[i+1:]
	}
	return v
}

func (s *Solver) Close() {
	if s.prim != nil && !s.prim.dead {
		s.prim.send("(exit)")
		s.prim.kill()
	}
	for _, h := range s.helpers {
		h.kill()
	}
}
