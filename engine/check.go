package main

import (
	"crypto/sha256"
	"encoding/json"
	"fmt"
	"os"
	"os/exec"
	"path/filepath"
	"regexp"
	"sort"
	"strconv"
	"strings"
	"sync"
	"time"

	"golang.org/x/tools/go/packages"
	"golang.org/x/tools/go/ssa"
	"golang.org/x/tools/go/ssa/ssautil"
)

// repoDir / verifDir: the registered checks always use /repo and /verif. VERIF_REPO and VERIF_OUT exist only for
// experiments (seeded-change matrix in a scratch worktree); with VERIF_OUT set, evidence and counterexamples go there.
var repoDir = envOr("VERIF_REPO", "/repo")
var verifDir = envOr("VERIF_HOME", "/verif") // VERIF_HOME: harness development in a scratch copy
var outDir = envOr("VERIF_OUT", "/verif")

func envOr(k, d string) string {
	if v := os.Getenv(k); v != "" {
		return v
	}
	return d
}
const modPath = "github.com/tellor-io/layer"

type Obligation struct {
	Property   string   `json:"property"`
	Name       string   `json:"name"`
	Pkg        string   `json:"pkg"`     // directory relative to /repo, e.g. x/oracle/keeper
	Harness    string   `json:"harness"` // function name
	Tier       string   `json:"tier"`    // quick | thorough (thorough-only)
	Abstract   bool     `json:"abstract,omitempty"`
	Concretize bool     `json:"concretize,omitempty"`
	MaxPaths   int      `json:"max_paths,omitempty"`
	TimeoutS   int      `json:"timeout_s,omitempty"`
	QueryMs    int      `json:"query_ms,omitempty"`
	Unwind     int      `json:"unwind,omitempty"`
	NoNative   bool     `json:"no_native,omitempty"` // the harness cannot run natively (stated in desc)
	Desc       string   `json:"desc"`
	Bounds     string   `json:"bounds"`
	Kernels    []string `json:"kernels"`
}

type KnownFinding struct {
	ID       string `json:"id"`
	Property string `json:"property"`
	Status   string `json:"status"` // "open" | "fixed"
	What     string `json:"what"`
	Commit   string `json:"commit,omitempty"`
	Example  string `json:"example,omitempty"`
}

func loadObligations() ([]Obligation, error) {
	b, err := os.ReadFile(filepath.Join(verifDir, "harness", "obligations.json"))
	if err != nil {
		return nil, err
	}
	var obs []Obligation
	if err := json.Unmarshal(b, &obs); err != nil {
		return nil, fmt.Errorf("obligations.json: %w", err)
	}
	return obs, nil
}

func loadKnown() (map[string]KnownFinding, error) {
	res := map[string]KnownFinding{}
	b, err := os.ReadFile(filepath.Join(verifDir, "known_findings.jsonl"))
	if err != nil {
		if os.IsNotExist(err) {
			return res, nil
		}
		return nil, err
	}
	for _, l := range strings.Split(string(b), "\n") {
		l = strings.TrimSpace(l)
		if l == "" || strings.HasPrefix(l, "#") {
			continue
		}
		var k KnownFinding
		if err := json.Unmarshal([]byte(l), &k); err != nil {
			return nil, fmt.Errorf("known_findings.jsonl: %w", err)
		}
		res[k.ID] = k
	}
	return res, nil
}

var harnessFnRe = regexp.MustCompile(`(?m)^func (Verif[A-Za-z0-9_]+)\(\)`)
var pkgClauseRe = regexp.MustCompile(`(?m)^package ([A-Za-z0-9_]+)`)

// harnessFiles returns the overlay (virtual path -> content) for a package directory and a property.
func harnessFiles(pkgDir, property string, native bool) (map[string][]byte, string, []string, error) {
	dir := filepath.Join(verifDir, "harness", "pkgs", pkgDir)
	ents, err := os.ReadDir(dir)
	if err != nil {
		return nil, "", nil, err
	}
	ov := map[string][]byte{}
	pkgName := ""
	var fns []string
	for _, e := range ents {
		n := e.Name()
		if !strings.HasSuffix(n, ".go") {
			continue
		}
		if !strings.HasPrefix(n, "zz_verif_") {
			continue
		}
		b, err := os.ReadFile(filepath.Join(dir, n))
		if err != nil {
			return nil, "", nil, err
		}
		ov[filepath.Join(repoDir, pkgDir, n)] = b
		if m := pkgClauseRe.FindSubmatch(b); m != nil {
			pkgName = string(m[1])
		}
		for _, m := range harnessFnRe.FindAllSubmatch(b, -1) {
			fns = append(fns, string(m[1]))
		}
	}
	if pkgName == "" {
		return nil, "", nil, fmt.Errorf("no harness files for %s in %s", property, dir)
	}
	// shared models (bank, ...) compiled into every harnessed package
	if shared, err := os.ReadDir(filepath.Join(verifDir, "harness", "shared")); err == nil {
		for _, e := range shared {
			if strings.HasSuffix(e.Name(), ".go.tmpl") {
				b, err := os.ReadFile(filepath.Join(verifDir, "harness", "shared", e.Name()))
				if err != nil {
					return nil, "", nil, err
				}
				ov[filepath.Join(repoDir, pkgDir, strings.TrimSuffix(e.Name(), ".tmpl"))] = []byte(strings.ReplaceAll(string(b), "@PKG@", pkgName))
			}
		}
	}
	tmpl := "nd_sym.go.tmpl"
	if native {
		tmpl = "nd_native.go.tmpl"
	}
	tb, err := os.ReadFile(filepath.Join(verifDir, "harness", tmpl))
	if err != nil {
		return nil, "", nil, err
	}
	ov[filepath.Join(repoDir, pkgDir, "zz_verif_nd.go")] = []byte(strings.ReplaceAll(string(tb), "@PKG@", pkgName))
	if native {
		tb, err := os.ReadFile(filepath.Join(verifDir, "harness", "replay_test.go.tmpl"))
		if err != nil {
			return nil, "", nil, err
		}
		var reg strings.Builder
		for _, f := range fns {
			fmt.Fprintf(&reg, "\t%q: %s,\n", f, f)
		}
		src := strings.ReplaceAll(string(tb), "@PKG@", pkgName)
		src = strings.ReplaceAll(src, "@REGISTRY@", reg.String())
		ov[filepath.Join(repoDir, pkgDir, "zz_verif_replay_test.go")] = []byte(src)
	}
	return ov, pkgName, fns, nil
}

var goEnv = []string{"GOFLAGS=-mod=mod", "GOPROXY=off", "GOSUMDB=off", "GOTOOLCHAIN=local"}

type loaded struct {
	prog  *ssa.Program
	pkgs  map[string]*ssa.Package // by dir
	loadS float64
}

func loadProgram(pkgDirs []string, property string) (*loaded, error) {
	t0 := time.Now()
	overlay := map[string][]byte{}
	var pats []string
	for _, d := range pkgDirs {
		ov, _, _, err := harnessFiles(d, property, false)
		if err != nil {
			return nil, err
		}
		for k, v := range ov {
			overlay[k] = v
		}
		pats = append(pats, "./"+d)
	}
	cfg := &packages.Config{Mode: packages.LoadAllSyntax, Dir: repoDir, Overlay: overlay, Env: append(os.Environ(), goEnv...)}
	pkgs, err := packages.Load(cfg, pats...)
	if err != nil {
		return nil, err
	}
	var errs []string
	packages.Visit(pkgs, nil, func(p *packages.Package) {
		if strings.HasPrefix(p.PkgPath, modPath) {
			for _, e := range p.Errors {
				errs = append(errs, p.PkgPath+": "+e.Error())
			}
		}
	})
	if len(errs) > 0 {
		return nil, fmt.Errorf("load errors:\n  %s", strings.Join(errs, "\n  "))
	}
	prog, spkgs := ssautil.AllPackages(pkgs, ssa.InstantiateGenerics)
	prog.Build()
	l := &loaded{prog: prog, pkgs: map[string]*ssa.Package{}}
	for i, p := range pkgs {
		if spkgs[i] != nil {
			rel := strings.TrimPrefix(strings.TrimPrefix(p.PkgPath, modPath), "/")
			l.pkgs[rel] = spkgs[i]
		}
	}
	l.loadS = time.Since(t0).Seconds()
	return l, nil
}

// ---------------------------------------------------------------- results

type OblResult struct {
	Ob          Obligation
	Paths       int
	Instrs      int
	Queries     int
	LinQ, NLQ   int
	SolverS     float64
	Raced       int            // queries not answered by the primary solver within 0.4 s and raced on the helper solvers
	HelperWins  map[string]int // races decided by a helper solver, by solver
	LabelFinding map[string]string
	WallS       float64
	Statuses    map[string]int
	Reached     map[string]int
	Discharged  map[string]int
	Unknown     map[string]int
	UnknownFork int
	Unsupported map[string]int
	Violations  []Violation
	Samples     []PathSample
	Funcs       []string
	TimedOut    bool
	PathCap     bool
	UnwindHits  int
	SolverErrs  []string
	Err         string
	// after native replay
	Confirmed  []Violation
	Spurious   []Violation
	KnownHits  []Violation
	Validated  int
	Mismatches []string
}

func runObligation(l *loaded, ob Obligation, tier int, seed int64, known map[string]bool, verbose bool) *OblResult {
	res := &OblResult{Ob: ob}
	sp := l.pkgs[ob.Pkg]
	if sp == nil {
		res.Err = "package not loaded: " + ob.Pkg
		return res
	}
	fn := sp.Func(ob.Harness)
	if fn == nil {
		res.Err = "harness not found: " + ob.Harness
		return res
	}
	cfg := Config{Tier: tier, MaxPaths: ob.MaxPaths, QueryTimeout: ob.QueryMs, Abstract: ob.Abstract, Concretize: ob.Concretize, Unwind: ob.Unwind, Samples: 4, Seed: seed, Known: known, Verbose: verbose}
	to := ob.TimeoutS
	if to == 0 {
		to = 300
	}
	if tier > 0 {
		to *= 6
		if to > 1200 {
			to = 1200 // thorough: at most 20 minutes per obligation (a cap that is hit is reported as INCONCLUSIVE)
		}
		if cfg.QueryTimeout == 0 {
			cfg.QueryTimeout = 120000
		}
		cfg.Samples = 8
	}
	cfg.Deadline = time.Now().Add(time.Duration(to) * time.Second)
	ex, err := NewExec(l.prog, ob.Name, cfg)
	if err != nil {
		res.Err = err.Error()
		return res
	}
	defer ex.Close()
	t0 := time.Now()
	func() {
		defer func() {
			if r := recover(); r != nil {
				res.Err = fmt.Sprint("engine panic: ", r)
			}
		}()
		ex.Explore(fn)
	}()
	res.WallS = time.Since(t0).Seconds()
	res.Paths, res.Instrs = ex.Paths, ex.Instrs
	res.Queries = ex.solver.Queries + ex.inc.Queries
	res.LinQ, res.NLQ = ex.LinQueries, ex.NLQueries
	res.SolverS = (ex.solver.Time + ex.inc.Time).Seconds()
	res.Raced = ex.solver.Raced + ex.inc.Raced
	res.HelperWins = map[string]int{}
	for _, sv := range []*Solver{ex.solver, ex.inc} {
		for k, v := range sv.HelperWins {
			res.HelperWins[k] += v
		}
	}
	res.Statuses, res.Reached, res.Discharged, res.Unknown = ex.Statuses, ex.Reached, ex.Discharged, ex.Unknown
	res.UnknownFork = ex.UnknownForks
	res.Unsupported = ex.unsupportedSeen
	res.Violations = ex.Violations
	res.Samples = ex.Samples
	res.TimedOut, res.PathCap, res.UnwindHits = ex.TimedOut, ex.PathCapHit, ex.UnwindHits
	res.SolverErrs = append(ex.solver.Errors, ex.inc.Errors...)
	res.LabelFinding = ex.LabelFinding
	for f := range ex.FuncsEncoded {
		if strings.Contains(f, modPath) && !strings.Contains(f, ".Verif") && !strings.Contains(f, ".nd") {
			res.Funcs = append(res.Funcs, f)
		}
	}
	sort.Strings(res.Funcs)
	return res
}

// ---------------------------------------------------------------- native replay / translator validation

type replayReq struct {
	ID      string            `json:"id"`
	Harness string            `json:"harness"`
	Model   map[string]string `json:"model"`
	Picks   map[string]int    `json:"picks"`
	Atoms   map[string]string `json:"atoms"`
	Repeat  int               `json:"repeat"`
	Tier    int               `json:"tier"`
}

type replayRun struct {
	Events []Event `json:"events"`
	Status string  `json:"status"`
}

type replayResp struct {
	ID   string      `json:"id"`
	Runs []replayRun `json:"runs"`
}

func nativeRun(pkgDir, property string, reqs []replayReq) (map[string]replayResp, string, error) {
	return nativeRunOpt(pkgDir, property, reqs, false)
}

// raceConfirmed: a lock-discipline violation found symbolically is confirmed by the Go race detector: the same harness
// and inputs, built with -race, the two "concurrent" calls really running in two goroutines (ndConcurrently under
// VERIF_RACE); confirmed iff a DATA RACE is reported with a frame in the repository's own (non-harness) code.
func raceConfirmed(pkgDir, property string, req replayReq) bool {
	req.Repeat = 1
	_, out, _ := nativeRunOpt(pkgDir, property, []replayReq{req}, true)
	if !strings.Contains(out, "DATA RACE") {
		return false
	}
	for _, l := range strings.Split(out, "\n") {
		l = strings.TrimSpace(l)
		if strings.HasPrefix(l, repoDir+"/") && strings.Contains(l, ".go:") && !strings.Contains(l, "zz_verif") && !strings.Contains(l, "_test.go") {
			return true
		}
	}
	return false
}

func nativeRunOpt(pkgDir, property string, reqs []replayReq, race bool) (map[string]replayResp, string, error) {
	ov, _, _, err := harnessFiles(pkgDir, property, true)
	if err != nil {
		return nil, "", err
	}
	tmp, err := os.MkdirTemp("", "verif-replay-")
	if err != nil {
		return nil, "", err
	}
	defer os.RemoveAll(tmp)
	repl := map[string]string{}
	i := 0
	for virt, content := range ov {
		real := filepath.Join(tmp, fmt.Sprintf("f%d_%s", i, filepath.Base(virt)))
		i++
		if err := os.WriteFile(real, content, 0o644); err != nil {
			return nil, "", err
		}
		repl[virt] = real
	}
	ovJSON, _ := json.Marshal(map[string]interface{}{"Replace": repl})
	ovPath := filepath.Join(tmp, "overlay.json")
	os.WriteFile(ovPath, ovJSON, 0o644)
	inPath, outPath := filepath.Join(tmp, "in.json"), filepath.Join(tmp, "out.json")
	rb, _ := json.Marshal(reqs)
	os.WriteFile(inPath, rb, 0o644)
	args := []string{"test", "-vet=off", "-count=1", "-timeout", "20m", "-overlay", ovPath, "-run", "^TestVerifReplay$", "./" + pkgDir}
	if race {
		args = append([]string{"test", "-race"}, args[1:]...)
	}
	cmd := exec.Command("go", args...)
	cmd.Dir = repoDir
	cmd.Env = append(append(os.Environ(), goEnv...), "VERIF_REPLAY_IN="+inPath, "VERIF_REPLAY_OUT="+outPath)
	if race {
		cmd.Env = append(cmd.Env, "VERIF_RACE=1", "CGO_ENABLED=1")
	}
	out, runErr := cmd.CombinedOutput()
	ob, err := os.ReadFile(outPath)
	if err != nil {
		return nil, string(out), fmt.Errorf("native run produced no output (%v)", runErr)
	}
	var resps []replayResp
	if err := json.Unmarshal(ob, &resps); err != nil {
		return nil, string(out), err
	}
	m := map[string]replayResp{}
	for _, r := range resps {
		m[r.ID] = r
	}
	return m, string(out), nil
}

func eventsEqual(a, b []Event) bool {
	if len(a) != len(b) {
		return false
	}
	for i := range a {
		if a[i] != b[i] {
			return false
		}
	}
	return true
}

func statusMatches(pred, native string) bool {
	if pred == "ok" {
		return native == "ok"
	}
	if strings.HasPrefix(pred, "panic") {
		return strings.HasPrefix(native, "panic")
	}
	return pred == native
}

// violationReproduced: does any native run show the predicted failure?
func violationReproduced(v Violation, runs []replayRun) bool {
	for _, r := range runs {
		if v.Kind == "panic" {
			if strings.HasPrefix(r.Status, "panic") {
				return true
			}
			continue
		}
		for _, e := range r.Events {
			if e.Kind == "assert" && e.Label == v.Label && !e.OK {
				return true
			}
		}
	}
	return false
}

// ---------------------------------------------------------------- check command

func cmdCheck(args []string) int {
	if len(args) < 1 {
		fmt.Fprintln(os.Stderr, "check: property id required")
		return 2
	}
	prop := args[0]
	tierName := os.Getenv("VERIF_TIER")
	only := ""
	verbose := false
	noNative := false
	for i := 1; i < len(args); i++ {
		switch args[i] {
		case "--tier":
			i++
			tierName = args[i]
		case "--only":
			i++
			only = args[i]
		case "-v":
			verbose = true
		case "--no-native":
			noNative = true
		}
	}
	if tierName == "" {
		tierName = "quick"
	}
	tier := 0
	if tierName == "thorough" {
		tier = 1
	}
	seed := int64(0)
	if s := os.Getenv("VERIF_SEED"); s != "" {
		seed, _ = strconv.ParseInt(s, 10, 64)
	}
	t0 := time.Now()
	obsAll, err := loadObligations()
	if err != nil {
		fmt.Fprintln(os.Stderr, "ERROR:", err)
		return 2
	}
	knownAll, err := loadKnown()
	if err != nil {
		fmt.Fprintln(os.Stderr, "ERROR:", err)
		return 2
	}
	known := map[string]bool{}
	for id, k := range knownAll {
		if k.Status == "open" {
			known[id] = true
		}
	}
	var obs []Obligation
	dirSet := map[string]bool{}
	for _, o := range obsAll {
		if o.Property != prop {
			continue
		}
		if only != "" && o.Name != only && o.Harness != only && !strings.HasPrefix(o.Name, only+"-") {
			continue
		}
		if o.Tier == "thorough" && tier == 0 {
			continue
		}
		obs = append(obs, o)
		dirSet[o.Pkg] = true
	}
	if len(obs) == 0 {
		fmt.Fprintln(os.Stderr, "ERROR: no obligations registered for", prop)
		return 2
	}
	var dirs []string
	for d := range dirSet {
		dirs = append(dirs, d)
	}
	sort.Strings(dirs)
	l, err := loadProgram(dirs, prop)
	if err != nil {
		fmt.Fprintln(os.Stderr, "ERROR:", err)
		return 2
	}
	fmt.Printf("loaded %v from /repo working tree in %.1fs\n", dirs, l.loadS)

	// run obligations in parallel
	results := make([]*OblResult, len(obs))
	par := 8
	if p := os.Getenv("VERIF_PAR"); p != "" {
		par, _ = strconv.Atoi(p)
	}
	sem := make(chan struct{}, par)
	var wg sync.WaitGroup
	for i, ob := range obs {
		wg.Add(1)
		go func(i int, ob Obligation) {
			defer wg.Done()
			sem <- struct{}{}
			defer func() { <-sem }()
			results[i] = runObligation(l, ob, tier, seed, known, verbose)
			r := results[i]
			fmt.Printf("[%s] %s: paths=%d queries=%d (lin %d / nl %d) solver=%.1fs wall=%.1fs statuses=%v violations=%d unknown=%v raced=%d helper-wins=%v\n",
				ob.Name, ob.Harness, r.Paths, r.Queries, r.LinQ, r.NLQ, r.SolverS, r.WallS, r.Statuses, len(r.Violations), r.Unknown, r.Raced, r.HelperWins)
		}(i, ob)
	}
	wg.Wait()

	// native replay of counterexamples + translator validation of sampled paths, one go test per package
	if !noNative {
		byPkg := map[string][]replayReq{}
		for i, r := range results {
			if r.Err != "" || r.Ob.NoNative {
				continue
			}
			for j, v := range r.Violations {
				rep := 1
				if strings.Contains(r.Ob.Desc, "[map-order]") {
					rep = 400
				}
				byPkg[r.Ob.Pkg] = append(byPkg[r.Ob.Pkg], replayReq{ID: fmt.Sprintf("v/%d/%d", i, j), Harness: r.Ob.Harness, Model: v.Model, Picks: v.Picks, Atoms: v.Atoms, Repeat: rep, Tier: tier})
			}
			for j, s := range r.Samples {
				byPkg[r.Ob.Pkg] = append(byPkg[r.Ob.Pkg], replayReq{ID: fmt.Sprintf("s/%d/%d", i, j), Harness: r.Ob.Harness, Model: s.Model, Picks: s.Picks, Atoms: s.Atoms, Repeat: 1, Tier: tier})
			}
		}
		var mu sync.Mutex
		var wg2 sync.WaitGroup
		for pkg, reqs := range byPkg {
			wg2.Add(1)
			go func(pkg string, reqs []replayReq) {
				defer wg2.Done()
				resp, out, err := nativeRun(pkg, prop, reqs)
				mu.Lock()
				defer mu.Unlock()
				if err != nil {
					for _, r := range results {
						if r.Ob.Pkg == pkg && r.Err == "" {
							r.Err = "native run failed: " + err.Error() + "\n" + tail(out, 30)
						}
					}
					return
				}
				for i, r := range results {
					if r.Ob.Pkg != pkg || r.Err != "" || r.Ob.NoNative {
						continue
					}
					for j, v := range r.Violations {
						rr := resp[fmt.Sprintf("v/%d/%d", i, j)]
						if violationReproduced(v, rr.Runs) || (v.Kind == "race" && raceConfirmed(pkg, prop, replayReq{ID: "race", Harness: r.Ob.Harness, Model: v.Model, Picks: v.Picks, Atoms: v.Atoms, Tier: tier})) {
							if v.Finding != "" && known[v.Finding] {
								r.KnownHits = append(r.KnownHits, v)
							} else {
								r.Confirmed = append(r.Confirmed, v)
							}
						} else {
							r.Spurious = append(r.Spurious, v)
						}
					}
					for j, s := range r.Samples {
						rr := resp[fmt.Sprintf("s/%d/%d", i, j)]
						if len(rr.Runs) == 0 {
							r.Mismatches = append(r.Mismatches, fmt.Sprintf("sample %d: no native run", j))
							continue
						}
						if s.MapIter {
							r.Validated++ // order not controlled natively: only executed, not compared
							continue
						}
						n := rr.Runs[0]
						if eventsEqual(s.Events, n.Events) && statusMatches(s.Status, n.Status) {
							r.Validated++
						} else if failed := firstFailedAssert(n.Events, r.LabelFinding); r.Ob.Abstract && failed != "" {
							// abstract obligation (Mul/Quo as uninterpreted functions): the engine's sample need not agree
							// with real arithmetic, but a native run of the real code on these concrete inputs that fails
							// an assertion is a reproduced violation in its own right
							r.Confirmed = append(r.Confirmed, Violation{Label: failed, Kind: "assert", Model: s.Model, Picks: s.Picks, Atoms: s.Atoms})
						} else if r.Ob.Abstract {
							r.Validated++ // differs only inside the abstraction (no native assertion failed)
						} else {
							sj, _ := json.Marshal(s)
							nj, _ := json.Marshal(n)
							r.Mismatches = append(r.Mismatches, fmt.Sprintf("sample %d: engine %s native %s", j, sj, nj))
						}
					}
				}
			}(pkg, reqs)
		}
		wg2.Wait()
	} else {
		for _, r := range results {
			for _, v := range r.Violations {
				if v.Finding != "" && known[v.Finding] {
					r.KnownHits = append(r.KnownHits, v)
				} else {
					r.Confirmed = append(r.Confirmed, v)
				}
			}
		}
	}

	return report(prop, tierName, seed, results, knownAll, time.Since(t0).Seconds(), l.loadS, noNative)
}

// firstFailedAssert: label of the first assertion the native run failed, ignoring labels that are split by a
// known-finding region (those are decided by the solver run only).
func firstFailedAssert(evs []Event, labelFinding map[string]string) string {
	for _, e := range evs {
		if e.Kind == "assert" && !e.OK && labelFinding[e.Label] == "" {
			return e.Label
		}
	}
	return ""
}

func tail(s string, n int) string {
	ls := strings.Split(strings.TrimSpace(s), "\n")
	if len(ls) > n {
		ls = ls[len(ls)-n:]
	}
	return strings.Join(ls, "\n")
}

func hashStr(s string) string {
	h := sha256.Sum256([]byte(s))
	return fmt.Sprintf("%x", h[:6])
}

func report(prop, tier string, seed int64, results []*OblResult, knownAll map[string]KnownFinding, wall, loadS float64, noNative bool) int {
	exit := 0
	var lines []string
	totalPaths, totalInstrs, totalQueries, validated := 0, 0, 0, 0
	solverS := 0.0
	nObl, nDis, nInc := 0, 0, 0
	var samples []interface{}
	var funcs = map[string]bool{}
	var assumptions []string
	knownPrinted := map[string]bool{}
	engineErr := false
	violations := 0
	os.MkdirAll(filepath.Join(outDir, "cex", prop), 0o755)
	for _, r := range results {
		totalPaths += r.Paths
		totalInstrs += r.Instrs
		totalQueries += r.Queries
		solverS += r.SolverS
		validated += r.Validated
		for _, f := range r.Funcs {
			funcs[f] = true
		}
		labels := map[string]bool{}
		for l := range r.Discharged {
			labels[l] = true
		}
		for l := range r.Unknown {
			labels[l] = true
		}
		for _, v := range r.Violations {
			labels[v.Label] = true
		}
		inconclusive := []string{}
		if r.Err != "" {
			engineErr = true
			lines = append(lines, fmt.Sprintf("ENGINE-ERROR obligation=%s %s", r.Ob.Name, r.Err))
		}
		for w, n := range r.Unsupported {
			inconclusive = append(inconclusive, fmt.Sprintf("unsupported x%d: %s", n, w))
		}
		for l, n := range r.Unknown {
			inconclusive = append(inconclusive, fmt.Sprintf("solver unknown x%d at %s", n, l))
		}
		if r.TimedOut {
			inconclusive = append(inconclusive, "wall-clock cap reached before all paths were explored")
		}
		if r.PathCap {
			inconclusive = append(inconclusive, "path cap reached")
		}
		if r.UnwindHits > 0 {
			inconclusive = append(inconclusive, fmt.Sprintf("unwinding bound hit on %d paths", r.UnwindHits))
		}
		if r.UnknownFork > 0 {
			inconclusive = append(inconclusive, fmt.Sprintf("%d feasibility checks unknown (branches kept)", r.UnknownFork))
		}
		for _, e := range r.SolverErrs {
			inconclusive = append(inconclusive, "solver error: "+e)
		}
		for _, s := range r.Spurious {
			inconclusive = append(inconclusive, fmt.Sprintf("counterexample for %q did not reproduce natively (SPURIOUS; model %v picks %v)", s.Label, s.Model, s.Picks))
		}
		for _, mm := range r.Mismatches {
			engineErr = true
			lines = append(lines, fmt.Sprintf("TRANSLATOR-MISMATCH obligation=%s %s", r.Ob.Name, mm))
		}
		vacuous := r.Err == "" && len(r.Reached) == 0 && !r.TimedOut
		if vacuous {
			engineErr = true
			lines = append(lines, fmt.Sprintf("VACUOUS obligation=%s: no reachability witness was reached", r.Ob.Name))
		}
		for _, v := range r.Confirmed {
			violations++
			exit = 1
			p := filepath.Join(outDir, "cex", prop, fmt.Sprintf("%s-%s.json", r.Ob.Name, hashStr(v.Label+fmt.Sprint(v.Model, v.Picks))))
			b, _ := json.MarshalIndent(map[string]interface{}{"property": prop, "obligation": r.Ob.Name, "harness": r.Ob.Harness, "pkg": r.Ob.Pkg, "violation": v}, "", " ")
			os.WriteFile(p, b, 0o644)
			lines = append(lines, fmt.Sprintf("VIOLATION property=%s replay=%s", prop, p))
			lines = append(lines, fmt.Sprintf("  obligation=%s label=%q kind=%s %s model=%v picks=%v", r.Ob.Name, v.Label, v.Kind, v.Panic, v.Model, v.Picks))
		}
		for _, v := range r.KnownHits {
			if !knownPrinted[v.Finding] {
				knownPrinted[v.Finding] = true
				lines = append(lines, fmt.Sprintf("KNOWN-FINDING: property=%s %s: %s (obligation %s, label %q, e.g. %v)", prop, v.Finding, knownAll[v.Finding].What, r.Ob.Name, v.Label, v.Model))
			}
		}
		onlyKnown := map[string]bool{}
		for _, v := range r.KnownHits {
			onlyKnown[v.Label] = true
		}
		for l := range labels {
			nObl++
			if (r.Discharged[l] > 0 || onlyKnown[l]) && r.Unknown[l] == 0 {
				viol := false
				for _, v := range append(append([]Violation{}, r.Confirmed...), r.Spurious...) {
					if v.Label == l {
						viol = true
					}
				}
				if !viol {
					nDis++
				}
			}
		}
		if len(inconclusive) > 0 {
			nInc++
			for _, s := range inconclusive {
				lines = append(lines, fmt.Sprintf("INCONCLUSIVE obligation=%s %s", r.Ob.Name, s))
			}
		}
		smp := map[string]interface{}{
			"obligation": r.Ob.Name, "harness": r.Ob.Pkg + "." + r.Ob.Harness, "what": r.Ob.Desc, "bounds": r.Ob.Bounds,
			"paths": r.Paths, "instructions": r.Instrs, "queries": r.Queries, "queries_incremental": r.LinQ, "queries_one_shot": r.NLQ,
			"solver_s": round2(r.SolverS), "wall_s": round2(r.WallS), "path_statuses": r.Statuses, "portfolio_races": r.Raced, "races_won_by_helper": r.HelperWins,
			"assertions_discharged": r.Discharged, "reached": r.Reached, "abstract_arithmetic": r.Ob.Abstract,
			"native_validated_samples": r.Validated, "inconclusive": inconclusive,
			"confirmed_violations": len(r.Confirmed), "known_finding_hits": len(r.KnownHits),
		}
		if len(r.Samples) > 0 {
			smp["one_path_model"] = r.Samples[0]
		}
		samples = append(samples, smp)
		assumptions = append(assumptions, r.Ob.Name+": "+r.Ob.Bounds)
	}
	flist := []string{}
	for f := range funcs {
		flist = append(flist, f)
	}
	sort.Strings(flist)
	trusted, _ := os.ReadFile(filepath.Join(verifDir, "harness", "TRUSTED_BASE.txt"))
	tb := []string{}
	for _, l := range strings.Split(string(trusted), "\n") {
		if strings.TrimSpace(l) != "" {
			tb = append(tb, strings.TrimSpace(l))
		}
	}
	if totalPaths == 0 {
		totalPaths = 1
	}
	if totalInstrs == 0 {
		totalInstrs = 1
	}
	ev := map[string]interface{}{
		"property_id": prop, "tier": tier, "seed": seed, "level": "model_checking",
		"coverage": map[string]interface{}{
			"states": totalPaths, "transitions": totalInstrs, "traces_validated_against_impl": validated,
			"samples": samples, "obligations": nObl, "discharged": nDis, "inconclusive_obligations": nInc,
			"functions_encoded": flist, "queries": totalQueries, "solver": solverVersion(), "solver_s": round2(solverS),
			"load_ssa_s": round2(loadS), "trusted_base": tb,
			"explanation": "bounded symbolic execution of the real functions (go/ssa of /repo's working tree, regenerated on this run) with an SMT solver deciding every assertion over all values inside the stated bounds; states = complete symbolic paths explored, transitions = SSA instructions executed symbolically; counterexamples and sampled path models are replayed natively through the same harness with go test -overlay",
			"exhaustive":  false,
		},
		"assumptions": assumptions, "wall_s": round2(wall), "violations": violations,
	}
	b, _ := json.MarshalIndent(ev, "", " ")
	os.MkdirAll(filepath.Join(outDir, "evidence"), 0o755)
	if err := os.WriteFile(filepath.Join(outDir, "evidence", prop+".json"), b, 0o644); err != nil {
		fmt.Fprintln(os.Stderr, "ERROR writing evidence:", err)
		return 2
	}
	sort.SliceStable(lines, func(i, j int) bool { return false })
	for _, l := range lines {
		fmt.Println(l)
	}
	fmt.Printf("SUMMARY property=%s tier=%s obligations(assert labels)=%d discharged=%d inconclusive_harnesses=%d paths=%d queries=%d solver=%.1fs wall=%.1fs native_validated=%d violations=%d\n",
		prop, tier, nObl, nDis, nInc, totalPaths, totalQueries, solverS, wall, validated, violations)
	if exit == 0 && engineErr {
		return 2
	}
	return exit
}

func round2(f float64) float64 { return float64(int(f*100+0.5)) / 100 }

var solverVer string

func solverVersion() string {
	if solverVer == "" {
		out, _ := exec.Command("z3-new", "--version").Output()
		solverVer = strings.TrimSpace(string(out))
	}
	return solverVer
}

// cmdRun: debugging entry: verif run <pkgdir> <harness> [property]
func cmdRun(args []string) int {
	if len(args) < 3 {
		fmt.Fprintln(os.Stderr, "run <pkgdir> <harness> <property>")
		return 2
	}
	l, err := loadProgram([]string{args[0]}, args[2])
	if err != nil {
		fmt.Fprintln(os.Stderr, err)
		return 2
	}
	ob := Obligation{Name: args[1], Pkg: args[0], Harness: args[1], Abstract: os.Getenv("VERIF_ABSTRACT") != ""}
	r := runObligation(l, ob, 0, 0, map[string]bool{}, true)
	b, _ := json.MarshalIndent(r, "", " ")
	fmt.Println(string(b))
	return 0
}

func cmdReplay(args []string) int {
	if len(args) < 2 {
		fmt.Fprintln(os.Stderr, "replay <PROP> <path>")
		return 2
	}
	b, err := os.ReadFile(args[1])
	if err != nil {
		fmt.Fprintln(os.Stderr, err)
		return 2
	}
	var c struct {
		Property, Obligation, Harness, Pkg string
		Violation                          Violation
	}
	if err := json.Unmarshal(b, &c); err != nil {
		fmt.Fprintln(os.Stderr, err)
		return 2
	}
	if c.Violation.Kind == "race" {
		// a lock-discipline violation is reproduced by the race detector (see raceConfirmed)
		if raceConfirmed(c.Pkg, c.Property, replayReq{ID: "r", Harness: c.Harness, Model: c.Violation.Model, Picks: c.Violation.Picks, Atoms: c.Violation.Atoms}) {
			fmt.Printf("REPRODUCED property=%s obligation=%s label=%q against the real code (go test -race -overlay in %s: DATA RACE reported)\n", c.Property, c.Obligation, c.Violation.Label, c.Pkg)
			return 1
		}
		fmt.Println("not reproduced")
		return 0
	}
	resp, out, err := nativeRun(c.Pkg, c.Property, []replayReq{{ID: "r", Harness: c.Harness, Model: c.Violation.Model, Picks: c.Violation.Picks, Atoms: c.Violation.Atoms, Repeat: 400}})
	if err != nil {
		fmt.Fprintln(os.Stderr, err, out)
		return 2
	}
	rr := resp["r"]
	if violationReproduced(c.Violation, rr.Runs) {
		fmt.Printf("REPRODUCED property=%s obligation=%s label=%q against the real code (go test -overlay in %s)\n", c.Property, c.Obligation, c.Violation.Label, c.Pkg)
		if len(rr.Runs) > 0 {
			j, _ := json.Marshal(rr.Runs[len(rr.Runs)-1])
			fmt.Println(string(j))
		}
		return 1
	}
	fmt.Println("not reproduced")
	return 0
}
