package main

import (
	"golang.org/x/tools/go/ssa"
)

func init() {
	extraIntrinsics = append(extraIntrinsics, func(m map[string]intrinsic) {
		m["cosmossdk.io/log.NewNopLogger"] = func(ex *Exec, fr *frame, cc *ssa.CallCommon, a []Value) Value {
			return VIface{Typ: loggerType, V: VOpaque{Kind: "logger"}}
		}
	})
}
