package main

import (
	"golang.org/x/tools/go/ssa"
)

func init() {
	extraIntrinsics = append(extraIntrinsics, func(m map[string]intrinsic) {
		m["github.com/cosmos/gogoproto/proto.EnumName"] = func(ex *Exec, fr *frame, cc *ssa.CallCommon, a []Value) Value {
			return ex.freshAtom("enumname")
		}
		m["github.com/cosmos/gogoproto/proto.CompactTextString"] = func(ex *Exec, fr *frame, cc *ssa.CallCommon, a []Value) Value {
			return ex.freshAtom("prototext")
		}
		m["cosmossdk.io/log.NewNopLogger"] = func(ex *Exec, fr *frame, cc *ssa.CallCommon, a []Value) Value {
			return VIface{Typ: loggerType, V: VOpaque{Kind: "logger"}}
		}
	})
}
