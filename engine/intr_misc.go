package main

import (
	"go/types"

	"golang.org/x/tools/go/ssa"
)

func init() {
	extraIntrinsics = append(extraIntrinsics, func(m map[string]intrinsic) {
		m["github.com/cosmos/gogoproto/proto.EnumName"] = func(ex *Exec, fr *frame, cc *ssa.CallCommon, a []Value) Value {
			return ex.freshAtom("enumname")
		}
		m["github.com/cosmos/gogoproto/proto.CompactTextString"] = func(ex *Exec, fr *frame, cc *ssa.CallCommon, a []Value) Value {
			return ex.freshAtom("prototext")
		}
		m["reflect.TypeOf"] = func(ex *Exec, fr *frame, cc *ssa.CallCommon, a []Value) Value {
			iv := a[0].(VIface)
			return VIface{Typ: errMarkerType, V: VOpaque{Kind: "rtype", Data: iv.Typ}}
		}
		m["invoke:reflect.Type.Kind"] = func(ex *Exec, fr *frame, cc *ssa.CallCommon, a []Value) Value {
			t, _ := a[0].(VIface).V.(VOpaque).Data.(types.Type)
			if t == nil {
				panic(goPanic{"reflect: Kind of nil type"})
			}
			// reflect.Kind numbering
			switch u := t.Underlying().(type) {
			case *types.Basic:
				switch {
				case u.Info()&types.IsBoolean != 0:
					return VInt{IntC(1)}
				case u.Info()&types.IsString != 0:
					return VInt{IntC(24)}
				case u.Kind() == types.Uint8:
					return VInt{IntC(8)}
				case u.Kind() == types.Uint64:
					return VInt{IntC(11)}
				case u.Kind() == types.Int64:
					return VInt{IntC(6)}
				}
			case *types.Slice:
				return VInt{IntC(23)}
			case *types.Array:
				return VInt{IntC(17)}
			case *types.Pointer:
				return VInt{IntC(22)}
			case *types.Struct:
				return VInt{IntC(25)}
			}
			panic(unsupported{"reflect Kind of " + t.String()})
		}
		m["cosmossdk.io/log.NewNopLogger"] = func(ex *Exec, fr *frame, cc *ssa.CallCommon, a []Value) Value {
			return VIface{Typ: loggerType, V: VOpaque{Kind: "logger"}}
		}
	})
}
