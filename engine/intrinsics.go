package main

import (
	"fmt"
	"os"
	"go/types"
	"math/big"
	"regexp"
	"strings"

	"golang.org/x/tools/go/ssa"
)

var globalInit = map[string]func(ex *Exec) Value{
	"github.com/tellor-io/layer/types.PowerReduction": func(ex *Exec) Value { return VInt{IntC(1000000)} },
	"github.com/tellor-io/layer/types.OnePercent":     func(ex *Exec) Value { return VInt{IntC(10000)} },
	"github.com/tellor-io/layer/types.BondDenom":      func(ex *Exec) Value { return concStr("loya") },
}

var identRe = regexp.MustCompile(`[^A-Za-z0-9_.]`)

func symName(v Value) string {
	s := v.(VStr)
	if s.Conc == nil {
		panic(unsupported{"nd name must be a constant string"})
	}
	return "nd_" + identRe.ReplaceAllString(*s.Conc, "_")
}

func (ex *Exec) ndInt(name string, lo, hi *big.Int) Term {
	ex.declare(name, "Int")
	ex.ndNames = append(ex.ndNames, name)
	t := IntVar(name)
	if lo != nil {
		ex.assume(Ge(t, IntB(lo)))
	}
	if hi != nil {
		ex.assume(Le(t, IntB(hi)))
	}
	return t
}

func (ex *Exec) mkErr(msg string, wrapped *ErrVal) Value {
	ex.objSeq++
	e := &ErrVal{ID: fmt.Sprintf("err#%d", ex.objSeq), Msg: msg, Wrapped: wrapped}
	return VIface{Typ: errMarkerType, V: VOpaque{Kind: "error", Data: e}}
}

func errOf(v Value) *ErrVal {
	i := v.(VIface)
	if i.Typ == nil {
		return nil
	}
	return i.V.(VOpaque).Data.(*ErrVal)
}

func nilErr() Value { return VIface{} }

type itemState struct {
	present Term
	val     Value
}

var extraIntrinsics []func(map[string]intrinsic)

func intrinsics() map[string]intrinsic {
	m := map[string]intrinsic{}
	defer func() {
		for _, f := range extraIntrinsics {
			f(m)
		}
	}()
	two63 := new(big.Int).Lsh(big.NewInt(1), 63)
	two64 := new(big.Int).Lsh(big.NewInt(1), 64)
	// ---- nd
	m["nd:ndUint64"] = func(ex *Exec, fr *frame, cc *ssa.CallCommon, a []Value) Value {
		return VInt{ex.ndInt(symName(a[0]), big.NewInt(0), new(big.Int).Sub(two64, big.NewInt(1)))}
	}
	m["nd:ndInt64"] = func(ex *Exec, fr *frame, cc *ssa.CallCommon, a []Value) Value {
		return VInt{ex.ndInt(symName(a[0]), new(big.Int).Neg(two63), new(big.Int).Sub(two63, big.NewInt(1)))}
	}
	m["nd:ndBigInt"] = func(ex *Exec, fr *frame, cc *ssa.CallCommon, a []Value) Value {
		return VInt{ex.ndInt(symName(a[0]), nil, nil)}
	}
	m["nd:ndBool"] = func(ex *Exec, fr *frame, cc *ssa.CallCommon, a []Value) Value {
		n := symName(a[0])
		ex.declare(n, "Bool")
		ex.ndNames = append(ex.ndNames, n)
		return VBool{BoolVar(n)}
	}
	m["nd:ndAtom"] = func(ex *Exec, fr *frame, cc *ssa.CallCommon, a []Value) Value {
		t := ex.ndInt(symName(a[0]), big.NewInt(0), nil)
		return VStr{Atom: &t}
	}
	m["nd:ndLen"] = func(ex *Exec, fr *frame, cc *ssa.CallCommon, a []Value) Value {
		mx := int(a[1].(VInt).T.I.Int64())
		return VInt{IntC(int64(ex.chooseFree(mx + 1)))}
	}
	m["nd:ndPick"] = m["nd:ndLen"]
	m["nd:ndAssume"] = func(ex *Exec, fr *frame, cc *ssa.CallCommon, a []Value) Value {
		c := a[0].(VBool).T
		if c.Const {
			if !c.B {
				panic(pathEnd{"assume false"})
			}
			return nil
		}
		if ex.query(c, false) == "unsat" {
			panic(pathEnd{"assume false"})
		}
		ex.assume(c)
		return nil
	}
	m["nd:ndAssert"] = func(ex *Exec, fr *frame, cc *ssa.CallCommon, a []Value) Value {
		c := a[0].(VBool).T
		label := *a[1].(VStr).Conc
		if c.Const && c.B {
			ex.Discharged[label]++
			return nil
		}
		r := ex.query(Not(c), false)
		if r == "sat" {
			r = ex.queryAll(Not(c))
		}
		if r == "sat" {
			model := ex.solver.GetValues(ex.ndNames)
			ex.Violations = append(ex.Violations, Violation{label, model})
		} else if r == "unsat" {
			ex.Discharged[label]++
		} else {
			ex.Discharged[label+"?unknown"]++
		}
		if c.Const && !c.B {
			panic(pathEnd{"assert failed"})
		}
		return nil // asserted conditions are NOT added to the path condition
	}
	m["nd:ndReach"] = func(ex *Exec, fr *frame, cc *ssa.CallCommon, a []Value) Value {
		ex.Reached[*a[0].(VStr).Conc]++
		return nil
	}
	m["nd:ndItem"] = func(ex *Exec, fr *frame, cc *ssa.CallCommon, a []Value) Value {
		return VOpaque{Kind: "item", Data: &itemState{present: a[0].(VBool).T, val: a[1]}}
	}
	// ---- sort
	sortFn := func(ex *Exec, fr *frame, cc *ssa.CallCommon, a []Value) Value {
		s := a[0].(VIface).V.(VSlice)
		less := a[1].(VClos)
		callLess := func(i, j int) bool {
			r := ex.callFn(fr, cc, less.Fn, []Value{VInt{IntC(int64(i))}, VInt{IntC(int64(j))}}, less.Bind)
			return ex.decide(r.(VBool).T)
		}
		for i := 1; i < s.Len; i++ {
			for j := i; j > 0 && callLess(j, j-1); j-- {
				arr := s.O.V.(VArr)
				e := make([]Value, len(arr.E))
				copy(e, arr.E)
				e[s.Off+j], e[s.Off+j-1] = e[s.Off+j-1], e[s.Off+j]
				s.O.V = VArr{e}
			}
		}
		return nil
	}
	m["sort.Slice"] = sortFn
	m["sort.SliceStable"] = sortFn
	// ---- errors
	m["errors.New"] = func(ex *Exec, fr *frame, cc *ssa.CallCommon, a []Value) Value {
		return ex.mkErr(ex.describe(a[0]), nil)
	}
	m["errors.Is"] = func(ex *Exec, fr *frame, cc *ssa.CallCommon, a []Value) Value {
		e, t := errOf(a[0]), errOf(a[1])
		for ; e != nil; e = e.Wrapped {
			if t != nil && e.ID == t.ID {
				return VBool{BoolC(true)}
			}
		}
		return VBool{BoolC(e == nil && t == nil)}
	}
	// ---- cosmossdk.io/math.Int
	mi := "(cosmossdk.io/math.Int)."
	bin := func(f func(a, b Term) Term) intrinsic {
		return func(ex *Exec, fr *frame, cc *ssa.CallCommon, a []Value) Value {
			return VInt{f(a[0].(VInt).T, a[1].(VInt).T)}
		}
	}
	cmpI := func(f func(a, b Term) Term) intrinsic {
		return func(ex *Exec, fr *frame, cc *ssa.CallCommon, a []Value) Value {
			return VBool{f(a[0].(VInt).T, a[1].(VInt).T)}
		}
	}
	m[mi+"Add"] = bin(Add)
	m[mi+"Sub"] = bin(Sub)
	m[mi+"Mul"] = bin(Mul)
	m[mi+"LT"] = cmpI(Lt)
	m[mi+"LTE"] = cmpI(Le)
	m[mi+"GT"] = cmpI(Gt)
	m[mi+"GTE"] = cmpI(Ge)
	m[mi+"Equal"] = cmpI(Eq)
	m[mi+"Neg"] = func(ex *Exec, fr *frame, cc *ssa.CallCommon, a []Value) Value { return VInt{Neg(a[0].(VInt).T)} }
	m[mi+"IsNegative"] = func(ex *Exec, fr *frame, cc *ssa.CallCommon, a []Value) Value {
		return VBool{Lt(a[0].(VInt).T, IntC(0))}
	}
	m[mi+"IsZero"] = func(ex *Exec, fr *frame, cc *ssa.CallCommon, a []Value) Value {
		return VBool{Eq(a[0].(VInt).T, IntC(0))}
	}
	m[mi+"IsPositive"] = func(ex *Exec, fr *frame, cc *ssa.CallCommon, a []Value) Value {
		return VBool{Gt(a[0].(VInt).T, IntC(0))}
	}
	quo := func(ex *Exec, fr *frame, cc *ssa.CallCommon, a []Value) Value {
		d := a[1].(VInt).T
		if !ex.decide(Not(Eq(d, IntC(0)))) {
			panic(goPanic{"division by zero"})
		}
		return VInt{TDiv(a[0].(VInt).T, d)}
	}
	m[mi+"Quo"] = quo
	m[mi+"QuoRaw"] = quo
	m[mi+"MulRaw"] = bin(Mul)
	m["cosmossdk.io/math.NewInt"] = func(ex *Exec, fr *frame, cc *ssa.CallCommon, a []Value) Value { return a[0] }
	m["cosmossdk.io/math.NewIntFromUint64"] = m["cosmossdk.io/math.NewInt"]
	m["cosmossdk.io/math.ZeroInt"] = func(ex *Exec, fr *frame, cc *ssa.CallCommon, a []Value) Value { return VInt{IntC(0)} }
	// ---- collections.Item
	m["(cosmossdk.io/collections.Item[V]).Get"] = func(ex *Exec, fr *frame, cc *ssa.CallCommon, a []Value) Value {
		it := a[0].(VOpaque).Data.(*itemState)
		if ex.decide(it.present) {
			return VTuple{it.val, nilErr()}
		}
		sig := cc.Signature()
		notFound := VIface{Typ: errMarkerType, V: VOpaque{Kind: "error", Data: ex.sentinel("cosmossdk.io/collections.ErrNotFound")}}
		return VTuple{ex.zero(sig.Results().At(0).Type()), notFound}
	}
	return m
}

var _ = strings.HasPrefix
var _ types.Type

func init() {
	extraIntrinsics = append(extraIntrinsics, func(m map[string]intrinsic) {
		m["context.Background"] = func(ex *Exec, fr *frame, cc *ssa.CallCommon, a []Value) Value {
			return VIface{Typ: errMarkerType, V: VOpaque{Kind: "ctx"}}
		}
	})
}

// ---------------------------------------------------------------- LegacyDec, collections (tier 1), bytes

var prec = new(big.Int).Exp(big.NewInt(10), big.NewInt(18), nil)

// divModPos defines fresh q,r with a = q*m + r, 0 <= r < m for a CONSTANT positive m (linear).
func (ex *Exec) divModPos(a Term, m *big.Int) (Term, Term) {
	if a.Const {
		q, r := new(big.Int).DivMod(a.I, m, new(big.Int))
		return IntB(q), IntB(r)
	}
	q, r := ex.aux("q"), ex.aux("r")
	ex.assume(And(Eq(a, Add(Mul(q, IntB(m)), r)), And(Ge(r, IntC(0)), Lt(r, IntB(m)))))
	return q, r
}

// name gives a compound term a fresh name so that it is not duplicated textually.
func (ex *Exec) name(t Term) Term {
	if t.Const || len(t.S) < 24 {
		return t
	}
	v := ex.aux("t")
	ex.assume(Eq(v, t))
	return v
}

// chopRoundX: half-even rounding of d / 10^18 using auxiliary quotient/remainder constants.
func (ex *Exec) chopRoundX(d Term) Term {
	d = ex.name(d)
	a := ex.name(Abs(d))
	q, r := ex.divModPos(a, prec)
	half := IntB(new(big.Int).Quo(prec, big.NewInt(2)))
	_, odd := ex.divModPos(q, big.NewInt(2))
	up := Or(Gt(r, half), And(Eq(r, half), Eq(odd, IntC(1))))
	res := ex.name(Ite(up, Add(q, IntC(1)), q))
	return ex.name(Ite(Lt(d, IntC(0)), Neg(res), res))
}

// truncDivX: truncated a / b for symbolic b != 0 using auxiliary constants: |a| = q*|b| + r.
func (ex *Exec) truncDivX(a, b Term) Term {
	if a.Const && b.Const {
		return TDiv(a, b)
	}
	a, b = ex.name(a), ex.name(b)
	absA, absB := ex.name(Abs(a)), ex.name(Abs(b))
	q, r := ex.aux("q"), ex.aux("r")
	ex.assume(And(Eq(absA, Add(Mul(q, absB), r)), And(Ge(r, IntC(0)), Lt(r, absB))))
	ex.assume(Ge(q, IntC(0)))
	same := Or(And(Ge(a, IntC(0)), Gt(b, IntC(0))), And(Lt(a, IntC(0)), Lt(b, IntC(0))))
	return ex.name(Ite(same, q, Neg(q)))
}

func chopRound(d Term) Term { // half-even rounding of d / 10^18 (sign-symmetric)
	P := IntB(prec)
	half := IntB(new(big.Int).Quo(prec, big.NewInt(2)))
	a := Abs(d)
	q := EDiv(a, P)
	r := EMod(a, P)
	up := Or(Gt(r, half), And(Eq(r, half), Eq(EMod(q, IntC(2)), IntC(1))))
	res := Ite(up, Add(q, IntC(1)), q)
	return Ite(Lt(d, IntC(0)), Neg(res), res)
}

type collEntry struct {
	key, val Value
}
type collMap struct {
	name    string
	entries []collEntry
}

func (ex *Exec) collKeyEq(a, b Value) Term {
	switch x := a.(type) {
	case VOpaque:
		if x.Kind == "pair" {
			pa, pb := x.Data.([2]Value), b.(VOpaque).Data.([2]Value)
			return And(ex.collKeyEq(pa[0], pb[0]), ex.collKeyEq(pa[1], pb[1]))
		}
	case VInt:
		return Eq(x.T, b.(VInt).T)
	case VStr:
		return ex.strEq(x, b.(VStr))
	}
	panic(unsupported{fmt.Sprintf("collection key %T", a)})
}

func init() {
	extraIntrinsics = append(extraIntrinsics, func(m map[string]intrinsic) {
		ld := "(cosmossdk.io/math.LegacyDec)."
		P := IntB(prec)
		bin := func(f func(a, b Term) Term) intrinsic {
			return func(ex *Exec, fr *frame, cc *ssa.CallCommon, a []Value) Value {
				return VInt{f(a[0].(VInt).T, a[1].(VInt).T)}
			}
		}
		m[ld+"Add"] = bin(Add)
		m[ld+"Sub"] = bin(Sub)
		havoc := os.Getenv("HAVOC") != ""
		// abstract mode: result is a fresh value constrained only by sign (sound over-approximation)
		abstract := func(ex *Exec, x, y Term) Term {
			r := ex.aux("h")
			nonneg := Or(And(Ge(x, IntC(0)), Ge(y, IntC(0))), And(Le(x, IntC(0)), Le(y, IntC(0))))
			ex.assume(Ite(nonneg, Ge(r, IntC(0)), Le(r, IntC(0))))
			ex.assume(Or(Not(Eq(x, IntC(0))), Eq(r, IntC(0))))
			return r
		}
		m[ld+"Mul"] = func(ex *Exec, fr *frame, cc *ssa.CallCommon, a []Value) Value {
			if havoc && !a[0].(VInt).T.Const && !a[1].(VInt).T.Const {
				return VInt{abstract(ex, a[0].(VInt).T, a[1].(VInt).T)}
			}
			return VInt{ex.chopRoundX(Mul(a[0].(VInt).T, a[1].(VInt).T))}
		}
		m[ld+"Quo"] = func(ex *Exec, fr *frame, cc *ssa.CallCommon, a []Value) Value {
			d := a[1].(VInt).T
			if !ex.decide(Not(Eq(d, IntC(0)))) {
				panic(goPanic{"LegacyDec division by zero"})
			}
			if havoc && !d.Const {
				return VInt{abstract(ex, a[0].(VInt).T, d)}
			}
			return VInt{ex.chopRoundX(ex.truncDivX(Mul(a[0].(VInt).T, Mul(P, P)), d))}
		}
		m[ld+"TruncateInt"] = func(ex *Exec, fr *frame, cc *ssa.CallCommon, a []Value) Value {
			return VInt{TDiv(a[0].(VInt).T, P)}
		}
		m[ld+"IsNegative"] = func(ex *Exec, fr *frame, cc *ssa.CallCommon, a []Value) Value {
			return VBool{Lt(a[0].(VInt).T, IntC(0))}
		}
		m[ld+"GTE"] = func(ex *Exec, fr *frame, cc *ssa.CallCommon, a []Value) Value {
			return VBool{Ge(a[0].(VInt).T, a[1].(VInt).T)}
		}
		m[ld+"LTE"] = func(ex *Exec, fr *frame, cc *ssa.CallCommon, a []Value) Value {
			return VBool{Le(a[0].(VInt).T, a[1].(VInt).T)}
		}
		m["(cosmossdk.io/math.Int).ToLegacyDec"] = func(ex *Exec, fr *frame, cc *ssa.CallCommon, a []Value) Value {
			return VInt{Mul(a[0].(VInt).T, P)}
		}
		m["cosmossdk.io/math.LegacyNewDec"] = m["(cosmossdk.io/math.Int).ToLegacyDec"]
		m["cosmossdk.io/math.LegacyNewDecFromInt"] = m["(cosmossdk.io/math.Int).ToLegacyDec"]
		m["cosmossdk.io/math.LegacyZeroDec"] = func(ex *Exec, fr *frame, cc *ssa.CallCommon, a []Value) Value { return VInt{IntC(0)} }
		m["nd:ndDecRaw"] = m["nd:ndBigInt"]
		m["nd:ndBytes"] = m["nd:ndAtom"]
		// collections
		m["nd:ndMap"] = func(ex *Exec, fr *frame, cc *ssa.CallCommon, a []Value) Value {
			return VOpaque{Kind: "map", Data: &collMap{name: *a[0].(VStr).Conc}}
		}
		m["nd:ndIMap"] = m["nd:ndMap"]
		get := func(ex *Exec, fr *frame, cc *ssa.CallCommon, a []Value) Value {
			cm := a[0].(VOpaque).Data.(*collMap)
			for _, e := range cm.entries {
				if ex.decide(ex.collKeyEq(e.key, a[2])) {
					return VTuple{e.val, nilErr()}
				}
			}
			nf := VIface{Typ: errMarkerType, V: VOpaque{Kind: "error", Data: ex.sentinel("cosmossdk.io/collections.ErrNotFound")}}
			return VTuple{ex.zero(cc.Signature().Results().At(0).Type()), nf}
		}
		set := func(ex *Exec, fr *frame, cc *ssa.CallCommon, a []Value) Value {
			cm := a[0].(VOpaque).Data.(*collMap)
			for i, e := range cm.entries {
				if ex.decide(ex.collKeyEq(e.key, a[2])) {
					cm.entries[i].val = a[3]
					return nilErr()
				}
			}
			cm.entries = append(cm.entries, collEntry{a[2], a[3]})
			return nilErr()
		}
		for _, recv := range []string{"(cosmossdk.io/collections.Map[K, V])", "(*cosmossdk.io/collections.IndexedMap[PrimaryKey, Value, Idx])"} {
			m[recv+".Get"] = get
			m[recv+".Set"] = set
		}
		m["cosmossdk.io/collections.Join"] = func(ex *Exec, fr *frame, cc *ssa.CallCommon, a []Value) Value {
			return VOpaque{Kind: "pair", Data: [2]Value{a[0], a[1]}}
		}
		m["(github.com/cosmos/cosmos-sdk/types.AccAddress).Bytes"] = func(ex *Exec, fr *frame, cc *ssa.CallCommon, a []Value) Value { return a[0] }
		m["bytes.Equal"] = func(ex *Exec, fr *frame, cc *ssa.CallCommon, a []Value) Value {
			return VBool{ex.strEq(a[0].(VStr), a[1].(VStr))}
		}
	})
}

func init() {
	extraIntrinsics = append(extraIntrinsics, func(m map[string]intrinsic) {
		m["nd:ndUlp"] = func(ex *Exec, fr *frame, cc *ssa.CallCommon, a []Value) Value { return a[0] }
		m["(cosmossdk.io/math.LegacyDec).QuoInt64"] = func(ex *Exec, fr *frame, cc *ssa.CallCommon, a []Value) Value { return a[0] }
	})
}

func init() {
	extraIntrinsics = append(extraIntrinsics, func(m map[string]intrinsic) {
		m["github.com/cosmos/cosmos-sdk/types.NewCoin"] = func(ex *Exec, fr *frame, cc *ssa.CallCommon, a []Value) Value {
			if ex.decide(Lt(a[1].(VInt).T, IntC(0))) {
				panic(goPanic{"negative coin amount"})
			}
			return VStruct{[]Value{a[0], a[1]}}
		}
		m["github.com/cosmos/cosmos-sdk/types.NewCoins"] = func(ex *Exec, fr *frame, cc *ssa.CallCommon, a []Value) Value {
			return a[0] // single-denom model: keep the list as given
		}
		m["(github.com/cosmos/cosmos-sdk/types.Coins).AmountOf"] = func(ex *Exec, fr *frame, cc *ssa.CallCommon, a []Value) Value {
			s := a[0].(VSlice)
			sum := IntC(0)
			for i := 0; i < s.Len; i++ {
				c := s.O.V.(VArr).E[s.Off+i].(VStruct)
				sum = Add(sum, Ite(ex.strEq(c.F[0].(VStr), a[1].(VStr)), c.F[1].(VInt).T, IntC(0)))
			}
			return VInt{sum}
		}
	})
	allowList["(*github.com/cosmos/cosmos-sdk/x/staking/types.UnbondingDelegation).RemoveEntry"] = true
}

var allowList = map[string]bool{}

func isHexDigit(b Term) Term {
	in := func(lo, hi int64) Term { return And(Ge(b, IntC(lo)), Le(b, IntC(hi))) }
	return Or(in('0', '9'), Or(in('a', 'f'), in('A', 'F')))
}

func init() {
	extraIntrinsics = append(extraIntrinsics, func(m map[string]intrinsic) {
		m["nd:ndStr"] = func(ex *Exec, fr *frame, cc *ssa.CallCommon, a []Value) Value {
			n := int(a[1].(VInt).T.I.Int64())
			bs := make([]Term, n)
			for i := range bs {
				bs[i] = ex.ndInt(fmt.Sprintf("%s_%d", symName(a[0]), i), big.NewInt(0), big.NewInt(255))
			}
			if n == 0 {
				bs = []Term{}
			}
			return VStr{Bytes: bs}
		}
		m["encoding/hex.DecodeString"] = func(ex *Exec, fr *frame, cc *ssa.CallCommon, a []Value) Value {
			s := a[0].(VStr)
			if s.Bytes == nil {
				panic(unsupported{"hex.DecodeString on non byte-level string"})
			}
			ok := BoolC(len(s.Bytes)%2 == 0)
			for _, b := range s.Bytes {
				ok = And(ok, isHexDigit(b))
			}
			if ex.decide(ok) {
				e := make([]Value, len(s.Bytes)/2)
				for i := range e {
					e[i] = VInt{ex.aux("hexbyte")}
				}
				return VTuple{VSlice{O: ex.newObj(VArr{e}), Len: len(e), Cap: len(e)}, nilErr()}
			}
			return VTuple{VSlice{}, ex.mkErr("encoding/hex: invalid", nil)}
		}
		m["(*math/big.Int).SetString"] = func(ex *Exec, fr *frame, cc *ssa.CallCommon, a []Value) Value {
			s := a[1].(VStr)
			if s.Bytes == nil {
				panic(unsupported{"SetString on non byte-level string"})
			}
			base := a[2].(VInt).T
			if !base.Const || base.I.Int64() != 16 {
				panic(unsupported{"SetString base != 16"})
			}
			// ^[+-]?[0-9a-fA-F]+$
			n := len(s.Bytes)
			digits := func(from int) Term {
				if from >= n {
					return BoolC(false)
				}
				ok := BoolC(true)
				for _, b := range s.Bytes[from:] {
					ok = And(ok, isHexDigit(b))
				}
				return ok
			}
			ok := digits(0)
			if n >= 1 {
				sign := Or(Eq(s.Bytes[0], IntC('+')), Eq(s.Bytes[0], IntC('-')))
				ok = Or(ok, And(sign, digits(1)))
			}
			if ex.decide(ok) {
				return VTuple{a[0], VBool{BoolC(true)}}
			}
			return VTuple{VPtr{}, VBool{BoolC(false)}}
		}
	})
}

func (ex *Exec) hexval(atom Term) Term {
	if !ex.declared["hexval"] {
		ex.declared["hexval"] = true
		declText["hexval"] = "(declare-fun hexval (Int) Int)(declare-fun hexok (Int) Bool)"
	}
	return Term{S: "(hexval " + atom.S + ")", V: unionV(atom, Term{V: []int{varID("hexval")}})}
}
func (ex *Exec) hexok(atom Term) Term {
	ex.hexval(atom)
	return Term{S: "(hexok " + atom.S + ")", Bool: true, V: unionV(atom, Term{V: []int{varID("hexval")}})}
}

func init() {
	extraIntrinsics = append(extraIntrinsics, func(m map[string]intrinsic) {
		atomOf := func(ex *Exec, v Value) Term {
			s := v.(VStr)
			if s.Atom != nil {
				return *s.Atom
			}
			if s.Conc != nil {
				return ex.atomOfConst(*s.Conc)
			}
			panic(unsupported{"atom expected"})
		}
		m["nd:ndHexOK"] = func(ex *Exec, fr *frame, cc *ssa.CallCommon, a []Value) Value {
			return VBool{ex.hexok(atomOf(ex, a[0]))}
		}
		m["nd:ndHexLess"] = func(ex *Exec, fr *frame, cc *ssa.CallCommon, a []Value) Value {
			return VBool{Lt(ex.hexval(atomOf(ex, a[0])), ex.hexval(atomOf(ex, a[1])))}
		}
		prev := m["(*math/big.Int).SetString"]
		m["(*math/big.Int).SetString"] = func(ex *Exec, fr *frame, cc *ssa.CallCommon, a []Value) Value {
			s := a[1].(VStr)
			if s.Atom == nil {
				return prev(ex, fr, cc, a)
			}
			if ex.decide(ex.hexok(*s.Atom)) {
				return VTuple{VOpaque{Kind: "bigptr", Data: ex.hexval(*s.Atom)}, VBool{BoolC(true)}}
			}
			return VTuple{VPtr{}, VBool{BoolC(false)}}
		}
		P := IntB(prec)
		m["cosmossdk.io/math.LegacyNewDecFromBigInt"] = func(ex *Exec, fr *frame, cc *ssa.CallCommon, a []Value) Value {
			return VInt{Mul(a[0].(VOpaque).Data.(Term), P)}
		}
		m["(cosmossdk.io/math.LegacyDec).BigInt"] = func(ex *Exec, fr *frame, cc *ssa.CallCommon, a []Value) Value {
			return VOpaque{Kind: "bigptr", Data: a[0].(VInt).T}
		}
		m["(*math/big.Int).Cmp"] = func(ex *Exec, fr *frame, cc *ssa.CallCommon, a []Value) Value {
			x, y := a[0].(VOpaque).Data.(Term), a[1].(VOpaque).Data.(Term)
			return VInt{Ite(Lt(x, y), IntC(-1), Ite(Gt(x, y), IntC(1), IntC(0)))}
		}
		m["(cosmossdk.io/math.LegacyDec).TruncateInt64"] = func(ex *Exec, fr *frame, cc *ssa.CallCommon, a []Value) Value {
			q := ex.truncDivX(a[0].(VInt).T, P)
			lim := new(big.Int).Lsh(big.NewInt(1), 63)
			if ex.decide(Or(Ge(q, IntB(lim)), Lt(q, IntB(new(big.Int).Neg(lim))))) {
				panic(goPanic{"Int64() out of bound"})
			}
			return VInt{q}
		}
	})
}

type multiIdx struct {
	parent *collMap
	name   string
}

func init() {
	prevZero := isTimeType
	_ = prevZero
	extraIntrinsics = append(extraIntrinsics, func(m map[string]intrinsic) {
		m["nd:ndTime"] = func(ex *Exec, fr *frame, cc *ssa.CallCommon, a []Value) Value {
			return VInt{ex.ndInt(symName(a[0]), big.NewInt(0), new(big.Int).Lsh(big.NewInt(1), 62))}
		}
		m["nd:ndCtx"] = func(ex *Exec, fr *frame, cc *ssa.CallCommon, a []Value) Value {
			return VIface{Typ: errMarkerType, V: VOpaque{Kind: "sdkctx", Data: a[0]}}
		}
		m["github.com/cosmos/cosmos-sdk/types.UnwrapSDKContext"] = func(ex *Exec, fr *frame, cc *ssa.CallCommon, a []Value) Value {
			return a[0].(VIface).V
		}
		m["(github.com/cosmos/cosmos-sdk/types.Context).BlockTime"] = func(ex *Exec, fr *frame, cc *ssa.CallCommon, a []Value) Value {
			return a[0].(VOpaque).Data.(Value)
		}
		m["(time.Time).Before"] = func(ex *Exec, fr *frame, cc *ssa.CallCommon, a []Value) Value {
			return VBool{Lt(a[0].(VInt).T, a[1].(VInt).T)}
		}
		m["(time.Time).After"] = func(ex *Exec, fr *frame, cc *ssa.CallCommon, a []Value) Value {
			return VBool{Gt(a[0].(VInt).T, a[1].(VInt).T)}
		}
		m["cosmossdk.io/math.OneInt"] = func(ex *Exec, fr *frame, cc *ssa.CallCommon, a []Value) Value { return VInt{IntC(1)} }
		m["(cosmossdk.io/errors.Error).Error"] = func(ex *Exec, fr *frame, cc *ssa.CallCommon, a []Value) Value { return concStr("registered-error") }
		m["(*cosmossdk.io/errors.Error).Error"] = m["(cosmossdk.io/errors.Error).Error"]
		// IndexedMap as a real struct {Indexes, m}
		m["nd:ndIMap"] = func(ex *Exec, fr *frame, cc *ssa.CallCommon, a []Value) Value {
			cm := &collMap{name: *a[0].(VStr).Conc}
			pt := cc.Signature().Results().At(0).Type().(*types.Pointer).Elem()
			st := pt.Underlying().(*types.Struct)
			idxT := st.Field(0).Type()
			idxS := idxT.Underlying().(*types.Struct)
			f := make([]Value, idxS.NumFields())
			for i := range f {
				f[i] = VPtr{O: ex.newObj(VOpaque{Kind: "multi", Data: &multiIdx{cm, idxS.Field(i).Name()}})}
			}
			return VPtr{O: ex.newObj(VStruct{[]Value{VStruct{f}, VOpaque{Kind: "map", Data: cm}}})}
		}
		unwrap := func(v Value) Value { // receiver: Map value or *IndexedMap
			if p, ok := v.(VPtr); ok {
				return p.load().(VStruct).F[1]
			}
			return v
		}
		get, set := m["(cosmossdk.io/collections.Map[K, V]).Get"], m["(cosmossdk.io/collections.Map[K, V]).Set"]
		wrap := func(f intrinsic) intrinsic {
			return func(ex *Exec, fr *frame, cc *ssa.CallCommon, a []Value) Value {
				b := append([]Value{unwrap(a[0])}, a[1:]...)
				return f(ex, fr, cc, b)
			}
		}
		has := func(ex *Exec, fr *frame, cc *ssa.CallCommon, a []Value) Value {
			cm := a[0].(VOpaque).Data.(*collMap)
			for _, e := range cm.entries {
				if ex.decide(ex.collKeyEq(e.key, a[2])) {
					return VTuple{VBool{BoolC(true)}, nilErr()}
				}
			}
			return VTuple{VBool{BoolC(false)}, nilErr()}
		}
		im := "(*cosmossdk.io/collections.IndexedMap[PrimaryKey, Value, Idx])"
		m[im+".Get"], m[im+".Set"], m[im+".Has"] = wrap(get), wrap(set), wrap(has)
		m["(cosmossdk.io/collections.Map[K, V]).Has"] = has
		m["(*cosmossdk.io/collections/indexes.Multi[ReferenceKey, PrimaryKey, Value]).MatchExact"] = func(ex *Exec, fr *frame, cc *ssa.CallCommon, a []Value) Value {
			mi := a[0].(VPtr).load().(VOpaque).Data.(*multiIdx)
			var hits []collEntry
			for _, e := range mi.parent.entries {
				var ref Value
				switch mi.name {
				case "VotersById":
					ref = e.key.(VOpaque).Data.([2]Value)[0]
				default:
					panic(unsupported{"index " + mi.name})
				}
				if ex.decide(ex.collKeyEq(ref, a[2])) {
					hits = append(hits, e)
				}
			}
			return VTuple{VOpaque{Kind: "multiiter", Data: hits}, nilErr()}
		}
		m["cosmossdk.io/collections/indexes.CollectKeyValues"] = func(ex *Exec, fr *frame, cc *ssa.CallCommon, a []Value) Value {
			hits := a[2].(VOpaque).Data.([]collEntry)
			e := make([]Value, len(hits))
			for i, h := range hits {
				e[i] = VStruct{[]Value{h.key, h.val}}
			}
			if len(e) == 0 {
				return VTuple{VSlice{}, nilErr()}
			}
			return VTuple{VSlice{O: ex.newObj(VArr{e}), Len: len(e), Cap: len(e)}, nilErr()}
		}
	})
}

func isTimeType(t types.Type) bool { return namedPath(t) == "time.Time" }

type rangeSpec struct {
	prefix     Value
	startExcl  *Term
	endExcl    *Term
	endIncl    *Term
	descending bool
}

func init() {
	extraIntrinsics = append(extraIntrinsics, func(m map[string]intrinsic) {
		// time modelled in milliseconds in this spike
		m["time.UnixMilli"] = func(ex *Exec, fr *frame, cc *ssa.CallCommon, a []Value) Value { return a[0] }
		m["(time.Time).UnixMilli"] = func(ex *Exec, fr *frame, cc *ssa.CallCommon, a []Value) Value { return a[0] }
		m["encoding/hex.EncodeToString"] = func(ex *Exec, fr *frame, cc *ssa.CallCommon, a []Value) Value { return concStr("<hex>") }
		m["fmt.Errorf"] = func(ex *Exec, fr *frame, cc *ssa.CallCommon, a []Value) Value { return ex.mkErr(ex.describe(a[0]), nil) }
		m["cosmossdk.io/collections.NewPrefixedPairRange"] = func(ex *Exec, fr *frame, cc *ssa.CallCommon, a []Value) Value {
			return VPtr{O: ex.newObj(VOpaque{Kind: "pairrange", Data: &rangeSpec{prefix: a[0]}})}
		}
		pr := "(*cosmossdk.io/collections.PairRange[K1, K2])."
		rs := func(v Value) *rangeSpec { return v.(VPtr).load().(VOpaque).Data.(*rangeSpec) }
		m[pr+"EndExclusive"] = func(ex *Exec, fr *frame, cc *ssa.CallCommon, a []Value) Value {
			t := a[1].(VInt).T
			rs(a[0]).endExcl = &t
			return a[0]
		}
		m[pr+"EndInclusive"] = func(ex *Exec, fr *frame, cc *ssa.CallCommon, a []Value) Value {
			t := a[1].(VInt).T
			rs(a[0]).endIncl = &t
			return a[0]
		}
		m[pr+"StartExclusive"] = func(ex *Exec, fr *frame, cc *ssa.CallCommon, a []Value) Value {
			t := a[1].(VInt).T
			rs(a[0]).startExcl = &t
			return a[0]
		}
		m[pr+"Descending"] = func(ex *Exec, fr *frame, cc *ssa.CallCommon, a []Value) Value {
			rs(a[0]).descending = true
			return a[0]
		}
		m["(cosmossdk.io/collections.Pair[K1, K2]).K1"] = func(ex *Exec, fr *frame, cc *ssa.CallCommon, a []Value) Value {
			return a[0].(VOpaque).Data.([2]Value)[0]
		}
		m["(cosmossdk.io/collections.Pair[K1, K2]).K2"] = func(ex *Exec, fr *frame, cc *ssa.CallCommon, a []Value) Value {
			return a[0].(VOpaque).Data.([2]Value)[1]
		}
		m["(*cosmossdk.io/collections.IndexedMap[PrimaryKey, Value, Idx]).Walk"] = func(ex *Exec, fr *frame, cc *ssa.CallCommon, a []Value) Value {
			cm := a[0].(VPtr).load().(VStruct).F[1].(VOpaque).Data.(*collMap)
			spec := a[2].(VIface).V.(VPtr).load().(VOpaque).Data.(*rangeSpec)
			fn := a[3].(VClos)
			// snapshot of the matching entries
			var sel []collEntry
			for _, e := range cm.entries {
				kp := e.key.(VOpaque).Data.([2]Value)
				k2 := kp[1].(VInt).T
				c := ex.collKeyEq(kp[0], spec.prefix)
				if spec.startExcl != nil {
					c = And(c, Gt(k2, *spec.startExcl))
				}
				if spec.endExcl != nil {
					c = And(c, Lt(k2, *spec.endExcl))
				}
				if spec.endIncl != nil {
					c = And(c, Le(k2, *spec.endIncl))
				}
				if ex.decide(c) {
					sel = append(sel, e)
				}
			}
			// order by K2 (keys are distinct): insertion sort deciding comparisons
			k2 := func(e collEntry) Term { return e.key.(VOpaque).Data.([2]Value)[1].(VInt).T }
			for i := 1; i < len(sel); i++ {
				for j := i; j > 0; j-- {
					before := Lt(k2(sel[j]), k2(sel[j-1]))
					if spec.descending {
						before = Gt(k2(sel[j]), k2(sel[j-1]))
					}
					if !ex.decide(before) {
						break
					}
					sel[j], sel[j-1] = sel[j-1], sel[j]
				}
			}
			for _, e := range sel {
				r := ex.callFn(fr, cc, fn.Fn, []Value{e.key, e.val}, fn.Bind).(VTuple)
				if errOf(r[1]) != nil {
					return r[1]
				}
				if ex.decide(r[0].(VBool).T) {
					break
				}
			}
			return nilErr()
		}
	})
}

func init() {
	extraIntrinsics = append(extraIntrinsics, func(m map[string]intrinsic) {
		m["nd:ndAddr"] = m["nd:ndAtom"]
		m["github.com/cosmos/cosmos-sdk/types.AccAddressFromBech32"] = func(ex *Exec, fr *frame, cc *ssa.CallCommon, a []Value) Value {
			return VTuple{a[0], nilErr()} // identity on atoms: String/FromBech32 are mutually inverse injections
		}
		m["(cosmossdk.io/math.LegacyDec).Equal"] = func(ex *Exec, fr *frame, cc *ssa.CallCommon, a []Value) Value {
			return VBool{Eq(a[0].(VInt).T, a[1].(VInt).T)}
		}
	})
}

// ---------------------------------------------------------------- ABI (static types) and byte helpers

func (ex *Exec) beBytes(v Term, n int) []Value { // n-byte big-endian of a non-negative int < 256^n
	out := make([]Value, n)
	cur := v
	for i := n - 1; i >= 0; i-- {
		q, r := ex.divModPos(cur, big.NewInt(256))
		out[i] = VInt{r}
		cur = q
	}
	return out
}

func init() {
	extraIntrinsics = append(extraIntrinsics, func(m map[string]intrinsic) {
		m["nd:ndByteSlice"] = func(ex *Exec, fr *frame, cc *ssa.CallCommon, a []Value) Value {
			n := int(a[1].(VInt).T.I.Int64())
			e := make([]Value, n)
			for i := range e {
				e[i] = VInt{ex.ndInt(fmt.Sprintf("%s_%d", symName(a[0]), i), big.NewInt(0), big.NewInt(255))}
			}
			return VSlice{O: ex.newObj(VArr{e}), Len: n, Cap: n}
		}
		sliceElems := func(s VSlice) []Value {
			if s.O == nil {
				return nil
			}
			return s.O.V.(VArr).E[s.Off : s.Off+s.Len]
		}
		m["github.com/ethereum/go-ethereum/common.BytesToAddress"] = func(ex *Exec, fr *frame, cc *ssa.CallCommon, a []Value) Value {
			b := sliceElems(a[0].(VSlice))
			if len(b) > 20 {
				b = b[len(b)-20:]
			}
			e := make([]Value, 20)
			for i := range e {
				e[i] = VInt{IntC(0)}
			}
			copy(e[20-len(b):], b)
			return VArr{e}
		}
		m["math/big.NewInt"] = func(ex *Exec, fr *frame, cc *ssa.CallCommon, a []Value) Value {
			return VOpaque{Kind: "bigptr", Data: a[0].(VInt).T}
		}
		m["(*math/big.Int).SetUint64"] = func(ex *Exec, fr *frame, cc *ssa.CallCommon, a []Value) Value {
			return VOpaque{Kind: "bigptr", Data: a[1].(VInt).T}
		}
		m["(encoding/binary.bigEndian).PutUint64"] = func(ex *Exec, fr *frame, cc *ssa.CallCommon, a []Value) Value {
			s := a[1].(VSlice)
			if s.Len < 8 {
				panic(goPanic{"PutUint64: short buffer"})
			}
			bs := ex.beBytes(a[2].(VInt).T, 8)
			arr := s.O.V.(VArr)
			e := make([]Value, len(arr.E))
			copy(e, arr.E)
			copy(e[s.Off:], bs)
			s.O.V = VArr{e}
			return nil
		}
		m["github.com/ethereum/go-ethereum/accounts/abi.NewType"] = func(ex *Exec, fr *frame, cc *ssa.CallCommon, a []Value) Value {
			return VTuple{VOpaque{Kind: "abitype", Data: *a[0].(VStr).Conc}, nilErr()}
		}
		m["(github.com/ethereum/go-ethereum/accounts/abi.Arguments).Pack"] = func(ex *Exec, fr *frame, cc *ssa.CallCommon, a []Value) Value {
			argsT := sliceElems(a[0].(VSlice))
			vals := sliceElems(a[1].(VSlice))
			if len(argsT) != len(vals) {
				return VTuple{VSlice{}, ex.mkErr("abi: argument count mismatch", nil)}
			}
			var out []Value
			for i, at := range argsT {
				ty := at.(VStruct).F[1].(VOpaque).Data.(string) // Argument{Name, Type, Indexed}
				v := vals[i].(VIface).V
				switch ty {
				case "address":
					arr := v.(VArr)
					for j := 0; j < 12; j++ {
						out = append(out, VInt{IntC(0)})
					}
					out = append(out, arr.E...)
				case "uint256":
					t := v.(VOpaque).Data.(Term)
					out = append(out, ex.beBytes(t, 32)...)
				default:
					panic(unsupported{"abi type " + ty})
				}
			}
			return VTuple{VSlice{O: ex.newObj(VArr{out}), Len: len(out), Cap: len(out)}, nilErr()}
		}
		m["github.com/ethereum/go-ethereum/crypto.Keccak256"] = func(ex *Exec, fr *frame, cc *ssa.CallCommon, a []Value) Value {
			var pre []Value
			for _, part := range sliceElems(a[0].(VSlice)) {
				pre = append(pre, sliceElems(part.(VSlice))...)
			}
			return VStr{Atom: nil, Conc: nil, Bytes: nil}.withHash(ex, pre)
		}
	})
}

// a hash value is an opaque 32-byte slice remembering its pre-image (injectivity assumption)
func (s VStr) withHash(ex *Exec, pre []Value) Value {
	return VOpaque{Kind: "keccak", Data: pre}
}
