package main

import (
	"strings"

	"golang.org/x/tools/go/ssa"
)

var extraIntrinsics []func(map[string]intrinsic)

func intrinsicTable() map[string]intrinsic {
	m := map[string]intrinsic{}
	for _, f := range extraIntrinsics {
		f(m)
	}
	// every access to a collection counts as one store access (the quantity that gas metering is a function of)
	for k, in := range m {
		if !strings.Contains(k, "cosmossdk.io/collections") {
			continue
		}
		switch k[strings.LastIndex(k, ".")+1:] {
		case "Get", "Set", "Has", "Remove", "Iterate", "Walk", "Peek", "Next", "MatchExact", "IterateRaw", "Clear":
			orig := in
			m[k] = func(ex *Exec, fr *frame, cc *ssa.CallCommon, a []Value) Value {
				ex.StoreOps++
				return orig(ex, fr, cc, a)
			}
		}
	}
	return m
}

// allowPrefixes: functions of other modules that are executed from their own SSA (small, pure helpers).
var allowPrefixes = []string{
	"(github.com/cosmos/cosmos-sdk/types.Coin).",
	"(github.com/cosmos/cosmos-sdk/types.Coins).",
	"(github.com/cosmos/cosmos-sdk/types.DecCoin).",
	"(*github.com/cosmos/cosmos-sdk/x/staking/types.UnbondingDelegation).RemoveEntry",
	"(github.com/cosmos/cosmos-sdk/x/staking/types.Validator).",
	"(github.com/cosmos/cosmos-sdk/x/staking/types.Delegation).",
	"(*github.com/cosmos/cosmos-sdk/x/staking/types.Delegation).",
	"(github.com/cosmos/cosmos-sdk/x/staking/types.BondStatus).",
	"github.com/cosmos/cosmos-sdk/x/staking/types.NewDelegation",
	"(*github.com/cosmos/cosmos-sdk/x/staking/types.Msg",
	"(*github.com/cosmos/cosmos-sdk/x/bank/types.Msg",
	"(github.com/cosmos/cosmos-sdk/types.AccAddress).Empty",
	"(*github.com/cometbft/cometbft/abci/types.",
	"(github.com/cometbft/cometbft/abci/types.",
	"(*github.com/cometbft/cometbft/proto/tendermint/types.",
	"github.com/cosmos/cosmos-sdk/x/bank/types.NewInput",
	"github.com/cosmos/cosmos-sdk/x/bank/types.NewOutput",
	"github.com/ethereum/go-ethereum/common.RightPadBytes",
	"github.com/ethereum/go-ethereum/common.LeftPadBytes",
	"github.com/ethereum/go-ethereum/common.CopyBytes",
	"github.com/ethereum/go-ethereum/common.TrimLeftZeroes",
	"github.com/ethereum/go-ethereum/common.TrimRightZeroes",
	"github.com/ethereum/go-ethereum/common.FromHex",
	"github.com/ethereum/go-ethereum/common.Hex2Bytes",
	"github.com/ethereum/go-ethereum/common.has0xPrefix",
	"github.com/ethereum/go-ethereum/common.isHexCharacter",
	"github.com/ethereum/go-ethereum/common.isHex",
	"github.com/tellor-io/",
	"github.com/cosmos/cosmos-sdk/types.TokensToConsensusPower",
	"github.com/cosmos/cosmos-sdk/types.TokensFromConsensusPower",
	"slices.",
	"sort.Sort",
	"sort.Stable",
	"sort.insertionSort",
	"sort.stable",
	"sort.symMerge",
	"sort.swapRange",
	"sort.rotate",
	"sort.Strings",
	"(sort.StringSlice).",
	"bytes.Repeat",
	"strings.Repeat",
}

func allowExternal(key string) bool {
	for _, p := range allowPrefixes {
		if strings.HasPrefix(key, p) {
			return true
		}
	}
	return false
}

// globalByName reads package-level variable pkg.name (running the package initialiser leniently if needed).
func (ex *Exec) globalByName(pkgPath, name string) Value {
	for _, p := range ex.prog.AllPackages() {
		if p.Pkg.Path() == pkgPath {
			if g, ok := p.Members[name].(*ssa.Global); ok {
				return ex.global(g).V
			}
		}
	}
	panic(unsupported{"global " + pkgPath + "." + name + " not found"})
}
