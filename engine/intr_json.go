package main

import (
	"fmt"
	"go/types"
	"reflect"
	"strings"

	"golang.org/x/tools/go/ssa"
)

// encoding/json, structural model: Marshal of a value is an opaque blob remembering the value; Unmarshal of such a
// blob into a destination of the same type restores it (nil slices stay nil, empty non-nil slices stay empty
// non-nil - encoding/json's null / [] / "" round trip). Unmarshal of any other bytes is an uninterpreted failure or
// leaves the destination at its zero value with arbitrary-but-valid contents not modelled (path ends UNSUPPORTED
// unless the harness only needs the failure branch).

func init() {
	extraIntrinsics = append(extraIntrinsics, func(m map[string]intrinsic) {
		m["encoding/json.Marshal"] = func(ex *Exec, fr *frame, cc *ssa.CallCommon, a []Value) Value {
			v := a[0]
			var typ string
			if iv, ok := v.(VIface); ok {
				if iv.Typ != nil {
					typ = iv.Typ.String()
				}
				v = iv.V
			}
			if p, ok := v.(VPtr); ok && p.O != nil {
				v = p.load()
			}
			var tobj types.Type
			if iv, ok := a[0].(VIface); ok {
				tobj = iv.Typ
			}
			blob := VOpaque{Kind: "json", Data: []interface{}{typ, ex.deepCopy(v), tobj, map[int]bool(nil)}}
			return VTuple{blob, nilErr()}
		}
		// ndJSONDrop(blob, key): the JSON object without the given top-level key (an extension a peer may send:
		// json.Unmarshal leaves the destination field of an absent key untouched)
		m["nd:ndJSONDrop"] = func(ex *Exec, fr *frame, cc *ssa.CallCommon, a []Value) Value {
			x, ok := a[0].(VOpaque)
			if !ok || x.Kind != "json" {
				panic(unsupported{"ndJSONDrop of a non-JSON value"})
			}
			d := x.Data.([]interface{})
			tobj, _ := d[2].(types.Type)
			if tobj == nil {
				panic(unsupported{"ndJSONDrop: unknown type"})
			}
			if pt, ok := tobj.Underlying().(*types.Pointer); ok {
				tobj = pt.Elem()
			}
			st, ok := tobj.Underlying().(*types.Struct)
			if !ok {
				panic(unsupported{"ndJSONDrop of a non-struct"})
			}
			key := cstr(a[1])
			omit := map[int]bool{}
			for k, v := range d[3].(map[int]bool) {
				omit[k] = v
			}
			found := false
			for i := 0; i < st.NumFields(); i++ {
				name := st.Field(i).Name()
				if tag := reflect.StructTag(st.Tag(i)).Get("json"); tag != "" {
					if n := strings.Split(tag, ",")[0]; n != "" {
						name = n
					}
				}
				if name == key {
					omit[i] = true
					found = true
				}
			}
			if !found {
				panic(unsupported{"ndJSONDrop: no field " + key})
			}
			return VOpaque{Kind: "json", Data: []interface{}{d[0], d[1], d[2], omit}}
		}
		m["encoding/json.Unmarshal"] = func(ex *Exec, fr *frame, cc *ssa.CallCommon, a []Value) Value {
			dst, ok := a[1].(VIface)
			if !ok || dst.Typ == nil {
				return ex.mkErr("json: Unmarshal(nil)", nil)
			}
			p, ok := dst.V.(VPtr)
			if !ok || p.O == nil {
				return ex.mkErr("json: Unmarshal(non-pointer)", nil)
			}
			switch x := a[0].(type) {
			case VOpaque:
				if x.Kind == "json" {
					d := x.Data.([]interface{})
					omit, _ := d[3].(map[int]bool)
					if len(omit) == 0 {
						p.store(ex.deepCopy(d[1].(Value)))
						return nilErr()
					}
					// absent keys leave the destination's fields as they are
					cur, ok1 := p.load().(VStruct)
					src, ok2 := d[1].(Value).(VStruct)
					if !ok1 || !ok2 || len(cur.F) != len(src.F) {
						panic(unsupported{"json.Unmarshal of a sparse object into a different type"})
					}
					nf := make([]Value, len(cur.F))
					for i := range nf {
						if omit[i] {
							nf[i] = cur.F[i]
						} else {
							nf[i] = ex.deepCopy(src.F[i])
						}
					}
					p.store(VStruct{F: nf})
					return nilErr()
				}
			case VSlice:
				if x.Len == 0 {
					return ex.mkErr("unexpected end of JSON input", nil)
				}
			case VStr:
				if x.Atom != nil {
					// arbitrary bytes: whether they parse is an uninterpreted predicate of the bytes; the parsed
					// contents are not modelled (only the failure branch is explorable)
					if ex.decide(ex.ufApp("json_valid", true, *x.Atom)) {
						panic(unsupported{"json.Unmarshal of arbitrary valid bytes"})
					}
					return ex.mkErr("invalid character in JSON input", nil)
				}
			}
			panic(unsupported{fmt.Sprintf("json.Unmarshal of %T", a[0])})
		}
		// reflect.DeepEqual: structural equality distinguishing nil from empty slices
		m["reflect.DeepEqual"] = func(ex *Exec, fr *frame, cc *ssa.CallCommon, a []Value) Value {
			x, y := a[0].(VIface), a[1].(VIface)
			if x.Typ == nil || y.Typ == nil {
				return VBool{BoolC(x.Typ == nil && y.Typ == nil)}
			}
			if x.Typ.String() != y.Typ.String() {
				return VBool{BoolC(false)}
			}
			return VBool{ex.deepEq(x.V, y.V)}
		}
		// secp256k1 recovery: uninterpreted
		m["github.com/ethereum/go-ethereum/crypto.SigToPub"] = func(ex *Exec, fr *frame, cc *ssa.CallCommon, a []Value) Value {
			sig := ex.mustBytes(a[1], "SigToPub signature")
			hash := ex.mustBytes(a[0], "SigToPub hash")
			if len(sig) != 65 {
				return VTuple{VPtr{}, ex.mkErr("invalid signature length", nil)}
			}
			// whether recovery succeeds is arbitrary
			ex.mapIter = true // environment choice the native run cannot be steered into: sample executed, not compared
			pre := append(append([]Term{}, hash...), sig...)
			// whether recovery succeeds is an arbitrary but fixed function of (hash, signature)
			okb := ex.funBytes("ecrecover-ok", pre, 1, false)[0]
			if !ex.decide(Lt(okb, IntC(128))) {
				return VTuple{VPtr{}, ex.mkErr("recovery failed", nil)}
			}
			addr := ex.funBytes("ecrecover", pre, 20, false)
			return VTuple{VPtr{O: ex.newObj(VOpaque{Kind: "pubkey", Data: addr})}, nilErr()}
		}
		// baseapp.ValidateVoteExtensions (CometBFT signature and voting-power validation of the extended commit):
		// environment; assumed to accept (the harness states "the commit is valid")
		m["github.com/cosmos/cosmos-sdk/baseapp.ValidateVoteExtensions"] = func(ex *Exec, fr *frame, cc *ssa.CallCommon, a []Value) Value {
			// signatures are assumed valid and the commit consistent with the last commit; the voting-power rule is
			// modelled: commit votes must carry at least 2/3 + 1 of the total power
			st, ok := cc.Args[4].Type().Underlying().(*types.Struct)
			ec, ok2 := a[4].(VStruct)
			if !ok || !ok2 {
				return nilErr()
			}
			fidx := func(s *types.Struct, name string) int {
				for i := 0; i < s.NumFields(); i++ {
					if s.Field(i).Name() == name {
						return i
					}
				}
				panic(unsupported{"field " + name})
			}
			votesI := fidx(st, "Votes")
			vt := st.Field(votesI).Type().Underlying().(*types.Slice).Elem().Underlying().(*types.Struct)
			valI, flagI := fidx(vt, "Validator"), fidx(vt, "BlockIdFlag")
			valT := vt.Field(valI).Type().Underlying().(*types.Struct)
			powI := fidx(valT, "Power")
			total, sum := IntC(0), IntC(0)
			votes, _ := ec.F[votesI].(VSlice)
			for _, ve := range sliceElems(votes) {
				v := ve.(VStruct)
				p := v.F[valI].(VStruct).F[powI].(VInt).T
				total = Add(total, p)
				sum = Add(sum, Ite(Eq(v.F[flagI].(VInt).T, IntC(2)), p, IntC(0))) // BlockIDFlagCommit = 2
			}
			need := Add(ex.truncDivX(Mul(total, IntC(2)), IntC(3)), IntC(1))
			if ex.decide(Or(Le(total, IntC(0)), Lt(sum, need))) {
				return ex.mkErr("insufficient cumulative voting power received to verify vote extensions", nil)
			}
			return nilErr()
		}
		m["github.com/ethereum/go-ethereum/crypto.PubkeyToAddress"] = func(ex *Exec, fr *frame, cc *ssa.CallCommon, a []Value) Value {
			o, ok := a[0].(VOpaque)
			if !ok || o.Kind != "pubkey" {
				panic(unsupported{"PubkeyToAddress of a non-recovered key"})
			}
			return termsToArr(o.Data.([]Term))
		}
	})
}

// deepEq: reflect.DeepEqual on values of identical static type.
func (ex *Exec) deepEq(a, b Value) Term {
	switch x := a.(type) {
	case VSlice:
		y, ok := b.(VSlice)
		if !ok {
			if ys, ok2 := b.(VStr); ok2 {
				if x.O == nil {
					return BoolC(false)
				}
				return ex.bytesEq(x, ys)
			}
			return BoolC(false)
		}
		if (x.O == nil) != (y.O == nil) {
			return BoolC(false) // nil vs empty non-nil
		}
		if x.Len != y.Len {
			return BoolC(false)
		}
		r := BoolC(true)
		xe, ye := sliceElems(x), sliceElems(y)
		for i := range xe {
			r = And(r, ex.deepEq(xe[i], ye[i]))
		}
		return r
	case VStruct:
		y := b.(VStruct)
		r := BoolC(true)
		for i := range x.F {
			r = And(r, ex.deepEq(x.F[i], y.F[i]))
		}
		return r
	case VArr:
		y := b.(VArr)
		r := BoolC(true)
		for i := range x.E {
			r = And(r, ex.deepEq(x.E[i], y.E[i]))
		}
		return r
	case VPtr:
		y := b.(VPtr)
		if x.O == nil || y.O == nil {
			return BoolC(x.O == nil && y.O == nil)
		}
		return ex.deepEq(x.load(), y.load())
	case VStr:
		if ys, ok := b.(VSlice); ok {
			if ys.O == nil {
				return BoolC(false)
			}
			return ex.bytesEq(x, ys)
		}
		return ex.structEq(a, b)
	}
	return ex.structEq(a, b)
}
