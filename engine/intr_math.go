package main

import (
	big2 "math/big"
	"math/big"
	"strings"

	"golang.org/x/tools/go/ssa"
)

var prec = new(big.Int).Exp(big.NewInt(10), big.NewInt(18), nil)

// divModPos defines fresh q,r with a = q*m + r, 0 <= r < m for a CONSTANT positive m (linear).
func (ex *Exec) divModPos(a Term, m *big.Int) (Term, Term) {
	if a.Const {
		q, r := new(big.Int).DivMod(a.I, m, new(big.Int))
		return IntB(q), IntB(r)
	}
	if q, ok := divExact(a, m); ok {
		return q, IntC(0)
	}
	key := a.S + "|" + m.String()
	if qr, ok := ex.divMemo[key]; ok {
		return qr[0], qr[1]
	}
	// a = g*a', m = g*m': floor(a/m) = floor(a'/m') and a mod m = g*(a' mod m'): smaller coefficients for the solver
	if m.Sign() > 0 {
		if g := new(big.Int).GCD(nil, nil, content(a), m); g.Cmp(big.NewInt(1)) > 0 && g.Cmp(m) < 0 {
			if a2, ok := divExact(a, g); ok {
				q, r2 := ex.divModPos(a2, new(big.Int).Quo(m, g))
				r := Mul(r2, IntB(g))
				ex.divMemo[key] = [2]Term{q, r}
				return q, r
			}
		}
	}
	q, r := ex.aux("q"), ex.aux("r")
	ex.assume(And(Eq(a, Add(Mul(q, IntB(m)), r)), And(Ge(r, IntC(0)), Lt(r, IntB(m)))))
	if m.Sign() > 0 && ex.nonneg(a) {
		ex.nnVars[q.V[0]] = true
	}
	ex.divMemo[key] = [2]Term{q, r}
	return q, r
}

// name gives a compound term a fresh name so that it is not duplicated textually.
func (ex *Exec) nameT(t Term) Term {
	if t.Const || len(t.S) < 24 {
		return t
	}
	var v Term
	if t.Bool {
		ex.auxSeq++
		n := "b_" + itoa(ex.auxSeq)
		ex.declare(n, "Bool")
		v = BoolVar(n)
	} else {
		v = ex.aux("t")
	}
	ex.assume(Eq(v, t))
	return v // (assume -> learnSigns marks v non-negative when t is)
}

func itoa(i int) string { return big.NewInt(int64(i)).String() }

// chopRoundX: half-even rounding of d / 10^18 using auxiliary quotient/remainder constants.
func (ex *Exec) chopRoundX(d Term) Term {
	if d.Const {
		return constChop(d.I)
	}
	if q, ok := divExact(d, prec); ok {
		return q // no remainder: rounding is the identity
	}
	if !ex.nonneg(d) {
		d = ex.nameT(d)
	}
	a := d
	if !ex.nonneg(d) {
		a = ex.nameT(Abs(d))
	}
	q, r := ex.divModPos(a, prec)
	half := IntB(new(big.Int).Quo(prec, big.NewInt(2)))
	_, odd := ex.divModPos(q, big.NewInt(2))
	up := Or(Gt(r, half), And(Eq(r, half), Eq(odd, IntC(1))))
	res := ex.nameT(Ite(up, Add(q, IntC(1)), q))
	return ex.nameT(Ite(ex.ltZero(d), Neg(res), res))
}

func constChop(d *big.Int) Term {
	a := new(big.Int).Abs(d)
	q, r := new(big.Int).QuoRem(a, prec, new(big.Int))
	half := new(big.Int).Quo(prec, big.NewInt(2))
	c := r.Cmp(half)
	if c > 0 || (c == 0 && q.Bit(0) == 1) {
		q.Add(q, big.NewInt(1))
	}
	if d.Sign() < 0 {
		q.Neg(q)
	}
	return IntB(q)
}

// roundHalfUpX: LegacyDec.RoundInt = half-even rounding of raw/10^18 too (chopPrecisionAndRoundNonMutative).

// tryConst: is the term forced to a single value by the path condition? (solver-decided concretisation: one model,
// then an unsat check that no other value is possible). Used for divisors drawn from a grid by the harness.
func (ex *Exec) tryConst(t Term) Term {
	if t.Const || t.Bool {
		return t
	}
	if c, ok := ex.constMemo[t.S]; ok {
		return c
	}
	res := t
	sl := ex.pcSlice(t)
	ex.begin(sl, BoolC(true))
	if ex.solver.Check() == "sat" {
		v := ex.solver.GetValueTerm(t.S)
		if bi, ok := parseSMTInt(v); ok {
			if ex.query(Not(Eq(t, IntB(bi))), false) == "unsat" {
				res = IntB(bi)
			}
		}
	}
	ex.constMemo[t.S] = res
	return res
}

func parseSMTInt(s string) (*big.Int, bool) {
	s = strings.TrimSpace(s)
	neg := false
	if strings.HasPrefix(s, "(-") {
		neg = true
		s = strings.TrimSpace(strings.TrimSuffix(strings.TrimPrefix(s, "(-"), ")"))
	}
	v, ok := new(big.Int).SetString(s, 10)
	if !ok {
		return nil, false
	}
	if neg {
		v.Neg(v)
	}
	return v, true
}

// truncDivX: truncated a / b for b != 0 using auxiliary constants: |a| = q*|b| + r.
func (ex *Exec) truncDivX(a, b Term) Term {
	if !b.Const && ex.cfg.Concretize {
		b = ex.tryConst(b)
	}
	if a.Const && b.Const {
		return TDiv(a, b)
	}
	if b.Const {
		if q, ok := divExact(a, b.I); ok {
			return q
		}
		absB := new(big.Int).Abs(b.I)
		if ex.nonneg(a) {
			q, _ := ex.divModPos(a, absB)
			if b.I.Sign() < 0 {
				return Neg(q)
			}
			return q
		}
		a = ex.nameT(a)
		q, _ := ex.divModPos(ex.nameT(Abs(a)), absB)
		neg := Lt(a, IntC(0))
		if b.I.Sign() < 0 {
			neg = Not(neg)
		}
		return ex.nameT(Ite(neg, Neg(q), q))
	}
	a, b = ex.nameT(a), ex.nameT(b)
	absA, absB := ex.nameT(ex.absT(a)), ex.nameT(ex.absT(b))
	q, r := ex.aux("q"), ex.aux("r")
	ex.assume(And(Eq(absA, Add(Mul(q, absB), r)), And(Ge(r, IntC(0)), Lt(r, absB))))
	ex.assume(Ge(q, IntC(0)))
	same := Or(And(Not(ex.ltZero(a)), Gt(b, IntC(0))), And(ex.ltZero(a), ex.ltZero(b)))
	return ex.nameT(Ite(same, q, Neg(q)))
}

// truncRemX: Go-style remainder a - b*trunc(a/b).
func (ex *Exec) truncRemX(a, b Term) Term {
	return Sub(a, Mul(b, ex.truncDivX(a, b)))
}

// abstractArith: fresh value constrained only by sign/zero (sound over-approximation of Mul/Quo).
func (ex *Exec) abstractArith(x, y Term) Term {
	return ex.abstractArithK("absop", x, y)
}

// abstractArithK: an uninterpreted FUNCTION of the operands (so that two executions on equal operands agree),
// constrained only by sign and zero-ness.
func (ex *Exec) abstractArithK(kind string, x, y Term) Term {
	x, y = ex.nameT(x), ex.nameT(y)
	r := ex.nameT(ex.ufApp(kind, false, x, y))
	nonneg := Or(And(Ge(x, IntC(0)), Ge(y, IntC(0))), And(Le(x, IntC(0)), Le(y, IntC(0))))
	ex.assume(Ite(nonneg, Ge(r, IntC(0)), Le(r, IntC(0))))
	ex.assume(Or(Not(Eq(x, IntC(0))), Eq(r, IntC(0))))
	return r
}

func ti(v Value) Term { return v.(VInt).T }

func (ex *Exec) nonzeroOrPanic(d Term, msg string) {
	if !ex.decide(Not(Eq(d, IntC(0)))) {
		panic(goPanic{msg})
	}
}

func (ex *Exec) bigCell(t Term) Value { return VPtr{O: ex.newObj(VInt{t})} }

func bigVal(v Value) Term {
	p := v.(VPtr)
	if p.O == nil {
		panic(goPanic{"nil *big.Int dereference"})
	}
	return p.load().(VInt).T
}

func init() {
	extraIntrinsics = append(extraIntrinsics, func(m map[string]intrinsic) {
		P := IntB(prec)
		bin := func(f func(a, b Term) Term) intrinsic {
			return func(ex *Exec, fr *frame, cc *ssa.CallCommon, a []Value) Value { return VInt{f(ti(a[0]), ti(a[1]))} }
		}
		cmpI := func(f func(a, b Term) Term) intrinsic {
			return func(ex *Exec, fr *frame, cc *ssa.CallCommon, a []Value) Value { return VBool{f(ti(a[0]), ti(a[1]))} }
		}
		un := func(f func(a Term) Term) intrinsic {
			return func(ex *Exec, fr *frame, cc *ssa.CallCommon, a []Value) Value { return VInt{f(ti(a[0]))} }
		}
		pred := func(f func(a Term) Term) intrinsic {
			return func(ex *Exec, fr *frame, cc *ssa.CallCommon, a []Value) Value { return VBool{f(ti(a[0]))} }
		}
		id := func(ex *Exec, fr *frame, cc *ssa.CallCommon, a []Value) Value { return a[0] }
		konst := func(c int64) intrinsic {
			return func(ex *Exec, fr *frame, cc *ssa.CallCommon, a []Value) Value { return VInt{IntC(c)} }
		}
		two63 := pow2(63)
		two64 := pow2(64)
		for _, mi := range []string{"(cosmossdk.io/math.Int).", "(cosmossdk.io/math.Uint)."} {
			m[mi+"Add"] = bin(Add)
			m[mi+"Sub"] = bin(Sub)
			m[mi+"Mul"] = bin(Mul)
			m[mi+"AddRaw"] = bin(Add)
			m[mi+"SubRaw"] = bin(Sub)
			m[mi+"MulRaw"] = bin(Mul)
			m[mi+"LT"] = cmpI(Lt)
			m[mi+"LTE"] = cmpI(Le)
			m[mi+"GT"] = cmpI(Gt)
			m[mi+"GTE"] = cmpI(Ge)
			m[mi+"Equal"] = cmpI(Eq)
			m[mi+"Neg"] = un(Neg)
			m[mi+"Abs"] = func(ex *Exec, fr *frame, cc *ssa.CallCommon, a []Value) Value { return VInt{ex.absT(ti(a[0]))} }
			m[mi+"IsNegative"] = func(ex *Exec, fr *frame, cc *ssa.CallCommon, a []Value) Value { return VBool{ex.ltZero(ti(a[0]))} }
			m[mi+"IsZero"] = pred(func(a Term) Term { return Eq(a, IntC(0)) })
			m[mi+"IsPositive"] = pred(func(a Term) Term { return Gt(a, IntC(0)) })
			m[mi+"IsNil"] = func(ex *Exec, fr *frame, cc *ssa.CallCommon, a []Value) Value { return VBool{BoolC(false)} }
			m[mi+"Sign"] = un(func(a Term) Term { return Ite(Lt(a, IntC(0)), IntC(-1), Ite(Gt(a, IntC(0)), IntC(1), IntC(0))) })
			quo := func(ex *Exec, fr *frame, cc *ssa.CallCommon, a []Value) Value {
				ex.nonzeroOrPanic(ti(a[1]), "division by zero")
				return VInt{ex.truncDivX(ti(a[0]), ti(a[1]))}
			}
			m[mi+"Quo"] = quo
			m[mi+"QuoRaw"] = quo
			mod := func(ex *Exec, fr *frame, cc *ssa.CallCommon, a []Value) Value {
				ex.nonzeroOrPanic(ti(a[1]), "division by zero")
				return VInt{ex.truncRemX(ti(a[0]), ti(a[1]))}
			}
			m[mi+"Mod"] = mod
			m[mi+"ModRaw"] = mod
			m[mi+"ToLegacyDec"] = un(func(a Term) Term { return Mul(a, P) })
			m[mi+"BigInt"] = func(ex *Exec, fr *frame, cc *ssa.CallCommon, a []Value) Value { return ex.bigCell(ti(a[0])) }
			m[mi+"BigIntMut"] = m[mi+"BigInt"]
			m[mi+"IsInt64"] = pred(func(a Term) Term { return And(Ge(a, IntB(new(big.Int).Neg(two63))), Lt(a, IntB(two63))) })
			m[mi+"IsUint64"] = pred(func(a Term) Term { return And(Ge(a, IntC(0)), Lt(a, IntB(two64))) })
			m[mi+"Int64"] = func(ex *Exec, fr *frame, cc *ssa.CallCommon, a []Value) Value {
				t := ti(a[0])
				if ex.decide(Or(Ge(t, IntB(two63)), Lt(t, IntB(new(big.Int).Neg(two63))))) {
					panic(goPanic{"Int64() out of bound"})
				}
				return VInt{t}
			}
			m[mi+"Uint64"] = func(ex *Exec, fr *frame, cc *ssa.CallCommon, a []Value) Value {
				t := ti(a[0])
				if ex.decide(Or(Ge(t, IntB(two64)), Lt(t, IntC(0)))) {
					panic(goPanic{"Uint64() out of bounds"})
				}
				return VInt{t}
			}
			m[mi+"String"] = func(ex *Exec, fr *frame, cc *ssa.CallCommon, a []Value) Value { return ex.fmtAtom("itoa", a[0]) }
		}
		// LegacyNewDecFromBigIntWithPrec / LegacyNewDecFromIntWithPrec(i, prec): raw = i * 10^(18-prec)
		decWithPrec := func(big bool) intrinsic {
			return func(ex *Exec, fr *frame, cc *ssa.CallCommon, a []Value) Value {
				var t Term
				if big {
					t = bigVal(a[0])
				} else {
					t = ti(a[0])
				}
				p := ti(a[1])
				if !p.Const || p.I.Sign() < 0 || p.I.Int64() > 18 {
					panic(unsupported{"LegacyNewDec...WithPrec with a symbolic or out-of-range precision"})
				}
				scale := new(big2.Int).Exp(big2.NewInt(10), big2.NewInt(18-p.I.Int64()), nil)
				return VInt{Mul(t, IntB(scale))}
			}
		}
		m["cosmossdk.io/math.LegacyNewDecFromBigIntWithPrec"] = decWithPrec(true)
		m["cosmossdk.io/math.LegacyNewDecFromIntWithPrec"] = decWithPrec(false)
		m["cosmossdk.io/math.NewInt"] = id
		m["cosmossdk.io/math.NewIntFromUint64"] = id
		m["cosmossdk.io/math.NewUint"] = id
		m["cosmossdk.io/math.NewIntFromBigInt"] = func(ex *Exec, fr *frame, cc *ssa.CallCommon, a []Value) Value {
			if a[0].(VPtr).O == nil {
				return VInt{IntC(0)} // math.Int{} (nil) - treated as zero
			}
			// math.Int holds at most 256 bits: the constructors from a big.Int panic beyond that
			v := bigVal(a[0])
			lim := IntB(new(big.Int).Lsh(big.NewInt(1), 256))
			if ex.decide(Or(Ge(v, lim), Le(v, Neg(lim)))) {
				panic(goPanic{"NewIntFromBigInt() out of bound"})
			}
			return VInt{v}
		}
		m["cosmossdk.io/math.NewIntFromBigIntMut"] = m["cosmossdk.io/math.NewIntFromBigInt"]
		m["cosmossdk.io/math.NewIntWithDecimal"] = func(ex *Exec, fr *frame, cc *ssa.CallCommon, a []Value) Value {
			d := cint(a[1])
			return VInt{Mul(ti(a[0]), IntB(new(big.Int).Exp(big.NewInt(10), big.NewInt(int64(d)), nil)))}
		}
		m["cosmossdk.io/math.ZeroInt"] = konst(0)
		m["cosmossdk.io/math.OneInt"] = konst(1)
		m["cosmossdk.io/math.ZeroUint"] = konst(0)
		m["cosmossdk.io/math.OneUint"] = konst(1)
		m["cosmossdk.io/math.MaxInt"] = bin(func(a, b Term) Term { return Ite(Ge(a, b), a, b) })
		m["cosmossdk.io/math.MinInt"] = bin(func(a, b Term) Term { return Ite(Le(a, b), a, b) })
		m["cosmossdk.io/math.LegacyMaxDec"] = m["cosmossdk.io/math.MaxInt"]
		m["cosmossdk.io/math.LegacyMinDec"] = m["cosmossdk.io/math.MinInt"]

		// ---- LegacyDec (raw Int scaled by 10^18)
		ld := "(cosmossdk.io/math.LegacyDec)."
		m[ld+"Add"] = bin(Add)
		m[ld+"Sub"] = bin(Sub)
		m[ld+"Neg"] = un(Neg)
		m[ld+"Abs"] = un(Abs)
		m[ld+"LT"] = cmpI(Lt)
		m[ld+"LTE"] = cmpI(Le)
		m[ld+"GT"] = cmpI(Gt)
		m[ld+"GTE"] = cmpI(Ge)
		m[ld+"Equal"] = cmpI(Eq)
		m[ld+"IsNegative"] = func(ex *Exec, fr *frame, cc *ssa.CallCommon, a []Value) Value { return VBool{ex.ltZero(ti(a[0]))} }
		m[ld+"IsZero"] = pred(func(a Term) Term { return Eq(a, IntC(0)) })
		m[ld+"IsPositive"] = pred(func(a Term) Term { return Gt(a, IntC(0)) })
		m[ld+"IsNil"] = func(ex *Exec, fr *frame, cc *ssa.CallCommon, a []Value) Value { return VBool{BoolC(false)} }
		m[ld+"IsInteger"] = func(ex *Exec, fr *frame, cc *ssa.CallCommon, a []Value) Value {
			_, r := ex.divModPos(ex.nameT(ex.absT(ti(a[0]))), prec)
			return VBool{Eq(r, IntC(0))}
		}
		m[ld+"Mul"] = func(ex *Exec, fr *frame, cc *ssa.CallCommon, a []Value) Value {
			x, y := ti(a[0]), ti(a[1])
			if ex.cfg.Concretize && !x.Const && !y.Const {
				y = ex.tryConst(y)
				if !y.Const {
					x = ex.tryConst(x)
				}
			}
			if ex.cfg.Abstract && !x.Const && !y.Const {
				return VInt{ex.abstractArithK("absmul", x, y)}
			}
			return VInt{ex.chopRoundX(Mul(x, y))}
		}
		m[ld+"MulTruncate"] = func(ex *Exec, fr *frame, cc *ssa.CallCommon, a []Value) Value {
			return VInt{ex.truncDivX(Mul(ti(a[0]), ti(a[1])), P)}
		}
		m[ld+"MulInt"] = bin(Mul)
		m[ld+"MulInt64"] = bin(Mul)
		m[ld+"Quo"] = func(ex *Exec, fr *frame, cc *ssa.CallCommon, a []Value) Value {
			x, d := ti(a[0]), ti(a[1])
			ex.nonzeroOrPanic(d, "division by zero")
			if ex.cfg.Abstract && !d.Const {
				return VInt{ex.abstractArithK("absquo", x, d)}
			}
			return VInt{ex.chopRoundX(ex.truncDivX(Mul(x, Mul(P, P)), d))}
		}
		m[ld+"QuoTruncate"] = func(ex *Exec, fr *frame, cc *ssa.CallCommon, a []Value) Value {
			x, d := ti(a[0]), ti(a[1])
			ex.nonzeroOrPanic(d, "division by zero")
			// chopPrecisionAndTruncate(trunc(x*1e36/d))
			return VInt{ex.truncDivX(ex.truncDivX(Mul(x, Mul(P, P)), d), P)}
		}
		quoInt := func(ex *Exec, fr *frame, cc *ssa.CallCommon, a []Value) Value {
			ex.nonzeroOrPanic(ti(a[1]), "division by zero")
			return VInt{ex.truncDivX(ti(a[0]), ti(a[1]))}
		}
		m[ld+"QuoInt"] = quoInt
		m[ld+"QuoInt64"] = quoInt
		m[ld+"TruncateInt"] = func(ex *Exec, fr *frame, cc *ssa.CallCommon, a []Value) Value {
			return VInt{ex.truncDivX(ti(a[0]), P)}
		}
		m[ld+"TruncateDec"] = func(ex *Exec, fr *frame, cc *ssa.CallCommon, a []Value) Value {
			return VInt{Mul(ex.truncDivX(ti(a[0]), P), P)}
		}
		m[ld+"RoundInt"] = func(ex *Exec, fr *frame, cc *ssa.CallCommon, a []Value) Value {
			return VInt{ex.chopRoundX(ti(a[0]))}
		}
		m[ld+"Ceil"] = func(ex *Exec, fr *frame, cc *ssa.CallCommon, a []Value) Value {
			x := ex.nameT(ti(a[0]))
			q, r := ex.divModPos(x, prec) // floor
			return VInt{Mul(Ite(Eq(r, IntC(0)), q, Add(q, IntC(1))), P)}
		}
		m[ld+"TruncateInt64"] = func(ex *Exec, fr *frame, cc *ssa.CallCommon, a []Value) Value {
			q := ex.truncDivX(ti(a[0]), P)
			if ex.decide(Or(Ge(q, IntB(two63)), Lt(q, IntB(new(big.Int).Neg(two63))))) {
				panic(goPanic{"Int64() out of bound"})
			}
			return VInt{q}
		}
		m[ld+"RoundInt64"] = func(ex *Exec, fr *frame, cc *ssa.CallCommon, a []Value) Value {
			q := ex.chopRoundX(ti(a[0]))
			if ex.decide(Or(Ge(q, IntB(two63)), Lt(q, IntB(new(big.Int).Neg(two63))))) {
				panic(goPanic{"Int64() out of bound"})
			}
			return VInt{q}
		}
		m[ld+"BigInt"] = func(ex *Exec, fr *frame, cc *ssa.CallCommon, a []Value) Value { return ex.bigCell(ti(a[0])) }
		m[ld+"String"] = func(ex *Exec, fr *frame, cc *ssa.CallCommon, a []Value) Value { return ex.fmtAtom("dec", a[0]) }
		toDec := un(func(a Term) Term { return Mul(a, P) })
		m["cosmossdk.io/math.LegacyNewDec"] = toDec
		m["cosmossdk.io/math.LegacyNewDecFromInt"] = toDec
		m["cosmossdk.io/math.LegacyNewDecFromBigInt"] = func(ex *Exec, fr *frame, cc *ssa.CallCommon, a []Value) Value {
			return VInt{Mul(bigVal(a[0]), P)}
		}
		m["cosmossdk.io/math.LegacyNewDecWithPrec"] = func(ex *Exec, fr *frame, cc *ssa.CallCommon, a []Value) Value {
			p := cint(a[1])
			return VInt{Mul(ti(a[0]), IntB(new(big.Int).Exp(big.NewInt(10), big.NewInt(int64(18-p)), nil)))}
		}
		m["cosmossdk.io/math.LegacyNewDecFromIntWithPrec"] = m["cosmossdk.io/math.LegacyNewDecWithPrec"]
		m["cosmossdk.io/math.LegacyZeroDec"] = konst(0)
		m["cosmossdk.io/math.LegacyOneDec"] = func(ex *Exec, fr *frame, cc *ssa.CallCommon, a []Value) Value { return VInt{P} }
		m["cosmossdk.io/math.LegacyMustNewDecFromStr"] = func(ex *Exec, fr *frame, cc *ssa.CallCommon, a []Value) Value {
			s := cstr(a[0])
			r, ok := new(big.Rat).SetString(s)
			if !ok {
				panic(goPanic{"bad decimal string"})
			}
			r.Mul(r, new(big.Rat).SetInt(prec))
			if !r.IsInt() {
				panic(unsupported{"decimal string with >18 digits"})
			}
			return VInt{IntB(r.Num())}
		}

		// ---- math/big.Int as a mutable cell
		bp := "(*math/big.Int)."
		m["math/big.NewInt"] = func(ex *Exec, fr *frame, cc *ssa.CallCommon, a []Value) Value { return ex.bigCell(ti(a[0])) }
		setter := func(f func(ex *Exec, a []Value) Term) intrinsic {
			return func(ex *Exec, fr *frame, cc *ssa.CallCommon, a []Value) Value {
				z := a[0].(VPtr)
				if z.O == nil {
					panic(goPanic{"nil *big.Int receiver"})
				}
				z.store(VInt{f(ex, a)})
				return z
			}
		}
		m[bp+"SetUint64"] = setter(func(ex *Exec, a []Value) Term { return ti(a[1]) })
		m[bp+"SetInt64"] = setter(func(ex *Exec, a []Value) Term { return ti(a[1]) })
		m[bp+"Set"] = setter(func(ex *Exec, a []Value) Term { return bigVal(a[1]) })
		m[bp+"Add"] = setter(func(ex *Exec, a []Value) Term { return Add(bigVal(a[1]), bigVal(a[2])) })
		m[bp+"Sub"] = setter(func(ex *Exec, a []Value) Term { return Sub(bigVal(a[1]), bigVal(a[2])) })
		m[bp+"Mul"] = setter(func(ex *Exec, a []Value) Term { return Mul(bigVal(a[1]), bigVal(a[2])) })
		m[bp+"Neg"] = setter(func(ex *Exec, a []Value) Term { return Neg(bigVal(a[1])) })
		m[bp+"Abs"] = setter(func(ex *Exec, a []Value) Term { return Abs(bigVal(a[1])) })
		m[bp+"Quo"] = setter(func(ex *Exec, a []Value) Term {
			ex.nonzeroOrPanic(bigVal(a[2]), "division by zero")
			return ex.truncDivX(bigVal(a[1]), bigVal(a[2]))
		})
		m[bp+"Rem"] = setter(func(ex *Exec, a []Value) Term {
			ex.nonzeroOrPanic(bigVal(a[2]), "division by zero")
			return ex.truncRemX(bigVal(a[1]), bigVal(a[2]))
		})
		m[bp+"Div"] = setter(func(ex *Exec, a []Value) Term { // Euclidean
			x, y := bigVal(a[1]), bigVal(a[2])
			ex.nonzeroOrPanic(y, "division by zero")
			if y.Const && y.I.Sign() > 0 {
				q, _ := ex.divModPos(x, y.I)
				return q
			}
			t := ex.truncDivX(x, y)
			rem := Sub(x, Mul(y, t))
			return Ite(Lt(rem, IntC(0)), Ite(Gt(y, IntC(0)), Sub(t, IntC(1)), Add(t, IntC(1))), t)
		})
		m[bp+"Mod"] = setter(func(ex *Exec, a []Value) Term {
			x, y := bigVal(a[1]), bigVal(a[2])
			ex.nonzeroOrPanic(y, "division by zero")
			if y.Const && y.I.Sign() > 0 {
				_, r := ex.divModPos(x, y.I)
				return r
			}
			panic(unsupported{"big.Int.Mod by symbolic"})
		})
		m[bp+"Lsh"] = setter(func(ex *Exec, a []Value) Term {
			n := ti(a[2])
			if !n.Const {
				panic(unsupported{"big.Int.Lsh by symbolic"})
			}
			return Mul(bigVal(a[1]), IntB(pow2(uint(n.I.Int64()))))
		})
		m[bp+"Rsh"] = setter(func(ex *Exec, a []Value) Term {
			n := ti(a[2])
			if !n.Const {
				panic(unsupported{"big.Int.Rsh by symbolic"})
			}
			q, _ := ex.divModPos(bigVal(a[1]), pow2(uint(n.I.Int64())))
			return q
		})
		m[bp+"Exp"] = setter(func(ex *Exec, a []Value) Term {
			x, y := bigVal(a[1]), bigVal(a[2])
			if !x.Const || !y.Const {
				panic(unsupported{"big.Int.Exp symbolic"})
			}
			var mod *big.Int
			if p := a[3].(VPtr); p.O != nil {
				mt := bigVal(a[3])
				if !mt.Const {
					panic(unsupported{"big.Int.Exp symbolic modulus"})
				}
				mod = mt.I
			}
			return IntB(new(big.Int).Exp(x.I, y.I, mod))
		})
		m[bp+"SetString"] = func(ex *Exec, fr *frame, cc *ssa.CallCommon, a []Value) Value {
			z := a[0].(VPtr)
			s := a[1].(VStr)
			base := ti(a[2])
			if !base.Const {
				panic(unsupported{"SetString symbolic base"})
			}
			fail := VTuple{VPtr{}, VBool{BoolC(false)}}
			if s.Conc != nil {
				v, ok := new(big.Int).SetString(*s.Conc, int(base.I.Int64()))
				if !ok {
					return fail
				}
				z.store(VInt{IntB(v)})
				return VTuple{z, VBool{BoolC(true)}}
			}
			if base.I.Int64() != 16 {
				panic(unsupported{"SetString base != 16 on symbolic string"})
			}
			if s.Atom != nil {
				if s.HexNum {
					q, _ := ex.divModPos(*s.Atom, big.NewInt(2))
					z.store(VInt{q})
					return VTuple{z, VBool{BoolC(true)}}
				}
				if ex.decide(ex.ufApp("hexok", true, *s.Atom)) {
					v := ex.ufApp("hexval", false, *s.Atom)
					ex.assume(Ge(v, IntC(0)))
					z.store(VInt{v})
					return VTuple{z, VBool{BoolC(true)}}
				}
				return fail
			}
			// byte-level: ^[+-]?[0-9a-fA-F]+$ (underscores are only legal with base 0)
			bs := s.Bytes
			n := len(bs)
			digits := func(from int) Term {
				if from >= n {
					return BoolC(false)
				}
				ok := BoolC(true)
				for _, b := range bs[from:] {
					ok = And(ok, isHexDigit(b))
				}
				return ok
			}
			ok := digits(0)
			signed := BoolC(false)
			if n >= 1 {
				signed = Or(Eq(bs[0], IntC('+')), Eq(bs[0], IntC('-')))
				ok = Or(ok, And(signed, digits(1)))
			}
			if !ex.decide(ok) {
				return fail
			}
			val := IntC(0)
			start := 0
			neg := BoolC(false)
			if n >= 1 && ex.decide(signed) {
				start = 1
				neg = Eq(bs[0], IntC('-'))
			}
			for _, b := range bs[start:] {
				val = ex.nameT(Add(Mul(val, IntC(16)), hexDigitVal(b)))
			}
			z.store(VInt{ex.nameT(Ite(neg, Neg(val), val))})
			return VTuple{z, VBool{BoolC(true)}}
		}
		m[bp+"Cmp"] = func(ex *Exec, fr *frame, cc *ssa.CallCommon, a []Value) Value {
			x, y := bigVal(a[0]), bigVal(a[1])
			return VInt{Ite(Lt(x, y), IntC(-1), Ite(Gt(x, y), IntC(1), IntC(0)))}
		}
		m[bp+"Sign"] = func(ex *Exec, fr *frame, cc *ssa.CallCommon, a []Value) Value {
			x := bigVal(a[0])
			return VInt{Ite(Lt(x, IntC(0)), IntC(-1), Ite(Gt(x, IntC(0)), IntC(1), IntC(0)))}
		}
		m[bp+"IsInt64"] = func(ex *Exec, fr *frame, cc *ssa.CallCommon, a []Value) Value {
			x := bigVal(a[0])
			return VBool{And(Ge(x, IntB(new(big.Int).Neg(two63))), Lt(x, IntB(two63)))}
		}
		m[bp+"IsUint64"] = func(ex *Exec, fr *frame, cc *ssa.CallCommon, a []Value) Value {
			x := bigVal(a[0])
			return VBool{And(Ge(x, IntC(0)), Lt(x, IntB(two64)))}
		}
		// Int64/Uint64: low 64 bits (two's complement) - NO error on overflow, exactly like math/big
		m[bp+"Int64"] = func(ex *Exec, fr *frame, cc *ssa.CallCommon, a []Value) Value {
			x := ex.nameT(bigVal(a[0]))
			if x.Const {
				return VInt{IntC(x.I.Int64())}
			}
			// low 64 bits of |x| with sign applied, wrapped into int64
			ab := ex.nameT(Abs(x))
			_, lo := ex.divModPos(ab, two64)
			v := ex.nameT(Ite(Lt(x, IntC(0)), Neg(lo), lo))
			// wrap into [-2^63, 2^63)
			w := Ite(Ge(v, IntB(two63)), Sub(v, IntB(two64)), Ite(Lt(v, IntB(new(big.Int).Neg(two63))), Add(v, IntB(two64)), v))
			return VInt{ex.nameT(w)}
		}
		m[bp+"Uint64"] = func(ex *Exec, fr *frame, cc *ssa.CallCommon, a []Value) Value {
			x := ex.nameT(bigVal(a[0]))
			if x.Const {
				return VInt{IntB(new(big.Int).SetUint64(x.I.Uint64()))}
			}
			ab := ex.nameT(Abs(x))
			_, lo := ex.divModPos(ab, two64)
			// for negative x math/big returns low bits of |x| (undefined by doc); keep that
			return VInt{lo}
		}
		m[bp+"String"] = func(ex *Exec, fr *frame, cc *ssa.CallCommon, a []Value) Value {
			return ex.fmtAtom("itoa", VInt{bigVal(a[0])})
		}
	})
}
