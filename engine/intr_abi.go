package main

import (
	"fmt"
	"go/types"
	"math/big"
	"strings"

	"golang.org/x/tools/go/ssa"
)

// ---------------------------------------------------------------- hashes: fresh bytes + pairwise injectivity axioms

type hashFact struct {
	pre []Term
	out []Term
}

func (ex *Exec) hashBytes(kind string, pre []Term, n int) []Term {
	return ex.funBytes(kind, pre, n, true)
}

// funBytes: n fresh bytes that are a FUNCTION of the pre-image (equal pre-images give equal bytes); with injective
// set, also collision-free (hashes); without, distinct pre-images may map to the same bytes (e.g. public-key
// recovery: many signatures recover the same address).
func (ex *Exec) funBytes(kind string, pre []Term, n int, injective bool) []Term {
	out := make([]Term, n)
	allConst := true
	for _, p := range pre {
		allConst = allConst && p.Const
	}
	for i := range out {
		out[i] = ex.aux(kind)
		ex.assume(And(Ge(out[i], IntC(0)), Le(out[i], IntC(255))))
	}
	facts := ex.hashes[kind]
	for _, f := range facts {
		eqOut := BoolC(true)
		for i := range out {
			eqOut = And(eqOut, Eq(out[i], f.out[i]))
		}
		if len(f.pre) != len(pre) {
			if injective {
				ex.assume(Not(eqOut)) // collision-freedom across lengths
			}
			continue
		}
		eqPre := BoolC(true)
		for i := range pre {
			eqPre = And(eqPre, Eq(pre[i], f.pre[i]))
		}
		eqPre = ex.nameT(eqPre)
		if injective {
			ex.assume(Eq(eqOut, eqPre)) // functional + injective
		} else {
			ex.assume(Or(Not(eqPre), eqOut)) // functional only
		}
	}
	if ex.hashes == nil {
		ex.hashes = map[string][]hashFact{}
	}
	ex.hashes[kind] = append(facts, hashFact{pre, out})
	return out
}

// injectiveAtom: a fresh atom id that is an injective function of the flattened pre-image (same facts as a hash).
func (ex *Exec) injectiveAtom(kind string, pre []Term) Term {
	out := ex.aux("inj")
	ex.assume(Ge(out, IntC(0)))
	facts := ex.hashes[kind]
	for _, f := range facts {
		eqOut := Eq(out, f.out[0])
		if len(f.pre) != len(pre) {
			ex.assume(Not(eqOut))
			continue
		}
		eqPre := BoolC(true)
		for i := range pre {
			eqPre = And(eqPre, Eq(pre[i], f.pre[i]))
		}
		ex.assume(Eq(eqOut, ex.nameT(eqPre)))
	}
	ex.hashes[kind] = append(facts, hashFact{pre, []Term{out}})
	return out
}

// flattenVal turns a value into a sequence of Int terms that determines it (for injective digests of structures).
func (ex *Exec) flattenVal(v Value, out *[]Term) bool {
	switch x := v.(type) {
	case VInt:
		*out = append(*out, x.T)
	case VBool:
		*out = append(*out, Ite(x.T, IntC(1), IntC(0)))
	case VStr:
		if x.Atom != nil {
			*out = append(*out, IntC(-7), *x.Atom)
			return true
		}
		ts, ok := ex.byteTerms(x)
		if !ok {
			return false
		}
		*out = append(*out, IntC(int64(len(ts))))
		*out = append(*out, ts...)
	case VSlice:
		es := sliceElems(x)
		*out = append(*out, IntC(int64(len(es))))
		for _, e := range es {
			if !ex.flattenVal(e, out) {
				return false
			}
		}
	case VArr:
		for _, e := range x.E {
			if !ex.flattenVal(e, out) {
				return false
			}
		}
	case VStruct:
		for _, e := range x.F {
			if !ex.flattenVal(e, out) {
				return false
			}
		}
	case VPtr:
		if x.O == nil {
			*out = append(*out, IntC(-9))
			return true
		}
		return ex.flattenVal(x.load(), out)
	case VIface:
		if x.Typ == nil {
			*out = append(*out, IntC(-9))
			return true
		}
		return ex.flattenVal(x.V, out)
	case VOpaque:
		if x.Kind == "marshaled" {
			return ex.flattenVal(x.Data.(Value), out)
		}
		return false
	default:
		return false
	}
	return true
}

func termsToSlice(ex *Exec, ts []Term) VSlice {
	e := make([]Value, len(ts))
	for i, t := range ts {
		e[i] = VInt{t}
	}
	if len(e) == 0 {
		return ex.mkSlice([]Value{})
	}
	return ex.mkSlice(e)
}

func termsToArr(ts []Term) VArr {
	e := make([]Value, len(ts))
	for i, t := range ts {
		e[i] = VInt{t}
	}
	return VArr{e}
}

func (ex *Exec) mustBytes(v Value, what string) []Term {
	if a, ok := v.(VArr); ok {
		out := make([]Term, len(a.E))
		for i, e := range a.E {
			out[i] = e.(VInt).T
		}
		return out
	}
	ts, ok := ex.byteTerms(v)
	if !ok {
		panic(unsupported{what + ": byte-level value required (got an atom)"})
	}
	return ts
}

// ---------------------------------------------------------------- ABI (Solidity head/tail layout)

func (ex *Exec) beBytes(v Term, n int) []Term { // n-byte big-endian of a non-negative int < 256^n
	out := make([]Term, n)
	cur := v
	for i := n - 1; i >= 0; i-- {
		q, r := ex.divModPos(cur, big.NewInt(256))
		out[i] = r
		cur = q
	}
	if !v.Const {
		// remember the decomposition so that re-assembling exactly these bytes is syntactic
		ex.assume(Eq(cur, IntC(0)))
		if ex.beMemo == nil {
			ex.beMemo = map[string]Term{}
		}
		ex.beMemo[beKey(out)] = v
	}
	return out
}

func beKey(bs []Term) string {
	var sb strings.Builder
	for _, b := range bs {
		sb.WriteString(b.S)
		sb.WriteByte(',')
	}
	return sb.String()
}

func (ex *Exec) beValue(bs []Term) Term {
	// leading zero bytes do not change the value: look the significant suffixes up in the memo
	for i := 0; i < len(bs); i++ {
		if v, ok := ex.beMemo[beKey(bs[i:])]; ok {
			lead := true
			for _, z := range bs[:i] {
				lead = lead && z.Const && z.I.Sign() == 0
			}
			if lead {
				return v
			}
		}
		if !(bs[i].Const && bs[i].I.Sign() == 0) {
			break
		}
	}
	v := IntC(0)
	for _, b := range bs {
		v = Add(Mul(v, IntC(256)), b)
	}
	return ex.nameT(v)
}

func zeros(n int) []Term {
	out := make([]Term, n)
	for i := range out {
		out[i] = IntC(0)
	}
	return out
}

func isDynamicABI(ty string) bool { return ty == "bytes" || ty == "string" }

func abiTypeName(v Value) string {
	// abi.Argument{Name, Type, Indexed}
	if s, ok := v.(VStruct); ok {
		if o, ok := s.F[1].(VOpaque); ok && o.Kind == "abitype" {
			return o.Data.(string)
		}
	}
	panic(unsupported{"abi argument type"})
}

func (ex *Exec) abiPack(types []string, vals []Value) []Term {
	headLen := 32 * len(types)
	var head, tail []Term
	for i, ty := range types {
		v := vals[i]
		if iv, ok := v.(VIface); ok {
			v = iv.V
		}
		switch ty {
		case "address":
			b := ex.mustBytes(v, "abi address")
			if len(b) != 20 {
				panic(unsupported{"abi address length"})
			}
			head = append(head, zeros(12)...)
			head = append(head, b...)
		case "uint256":
			var t Term
			switch x := v.(type) {
			case VPtr:
				t = bigVal(x)
			case VInt:
				t = x.T
			default:
				panic(unsupported{fmt.Sprintf("abi uint256 from %T", v)})
			}
			if ex.decide(Or(Lt(t, IntC(0)), Ge(t, IntB(pow2(256))))) {
				// go-ethereum packs math.U256Bytes(n): the value modulo 2^256 (two's complement for negatives)
				_, t = ex.divModPos(ex.nameT(t), pow2(256))
			}
			head = append(head, ex.beBytes(t, 32)...)
		case "bool":
			head = append(head, zeros(31)...)
			head = append(head, Ite(v.(VBool).T, IntC(1), IntC(0)))
		case "bytes32":
			b := ex.mustBytes(v, "abi bytes32")
			if len(b) != 32 {
				panic(unsupported{"abi bytes32 length"})
			}
			head = append(head, b...)
		case "bytes", "string":
			b := ex.mustBytes(v, "abi "+ty)
			head = append(head, ex.beBytes(IntC(int64(headLen+len(tail))), 32)...)
			tail = append(tail, ex.beBytes(IntC(int64(len(b))), 32)...)
			tail = append(tail, b...)
			if pad := (32 - len(b)%32) % 32; pad > 0 {
				tail = append(tail, zeros(pad)...)
			}
		default:
			panic(unsupported{"abi type " + ty})
		}
	}
	return append(head, tail...)
}

// abiUnpack follows go-ethereum's Arguments.Unpack for the basic types (errors on short input, bad offsets,
// bool not in {0,1}; the upper 12 bytes of an address word are ignored).
func (ex *Exec) abiUnpack(types []string, data []Term, cc *ssa.CallCommon) ([]Value, bool) {
	if len(types) > 0 && len(data) == 0 {
		return nil, false
	}
	var out []Value
	word := func(i int) ([]Term, bool) {
		if 32*i+32 > len(data) {
			return nil, false
		}
		return data[32*i : 32*i+32], true
	}
	for i, ty := range types {
		w, ok := word(i)
		if !ok {
			return nil, false
		}
		switch ty {
		case "address":
			out = append(out, VIface{Typ: ex.abiGoType("address"), V: termsToArr(w[12:])})
		case "uint256":
			out = append(out, VIface{Typ: ex.abiGoType("uint256"), V: ex.bigCell(ex.beValue(w))})
		case "bool":
			hi := BoolC(true)
			for _, b := range w[:31] {
				hi = And(hi, Eq(b, IntC(0)))
			}
			valid := And(hi, Or(Eq(w[31], IntC(0)), Eq(w[31], IntC(1))))
			if !ex.decide(valid) {
				return nil, false
			}
			out = append(out, VIface{Typ: ex.abiGoType("bool"), V: VBool{Eq(w[31], IntC(1))}})
		case "bytes32":
			out = append(out, VIface{Typ: ex.abiGoType("bytes32"), V: termsToArr(w)})
		case "bytes", "string":
			// offset and length must fit an int64 and lie inside the data
			off := ex.beValue(w)
			o := ex.concretize(off, 0, len(data))
			if o < 0 || o+32 > len(data) {
				return nil, false
			}
			ln := ex.beValue(data[o : o+32])
			l := ex.concretize(ln, 0, len(data))
			if l < 0 || o+32+l > len(data) {
				return nil, false
			}
			payload := data[o+32 : o+32+l]
			if ty == "bytes" {
				out = append(out, VIface{Typ: ex.abiGoType("bytes"), V: termsToSlice(ex, append([]Term{}, payload...))})
			} else {
				out = append(out, VIface{Typ: ex.abiGoType("string"), V: VStr{Bytes: append([]Term{}, payload...)}})
			}
		default:
			panic(unsupported{"abi type " + ty})
		}
	}
	return out, true
}

func init() {
	extraIntrinsics = append(extraIntrinsics, func(m map[string]intrinsic) {
		m["github.com/ethereum/go-ethereum/accounts/abi.NewType"] = func(ex *Exec, fr *frame, cc *ssa.CallCommon, a []Value) Value {
			return VTuple{VOpaque{Kind: "abitype", Data: cstr(a[0])}, nilErr()}
		}
		m["(github.com/ethereum/go-ethereum/accounts/abi.Arguments).Pack"] = func(ex *Exec, fr *frame, cc *ssa.CallCommon, a []Value) Value {
			argsT := sliceElems(a[0])
			vals := sliceElems(a[1])
			if len(argsT) != len(vals) {
				return VTuple{VSlice{}, ex.mkErr("abi: argument count mismatch", nil)}
			}
			types := make([]string, len(argsT))
			for i, at := range argsT {
				types[i] = abiTypeName(at)
			}
			return VTuple{termsToSlice(ex, ex.abiPack(types, vals)), nilErr()}
		}
		m["(github.com/ethereum/go-ethereum/accounts/abi.Arguments).Unpack"] = func(ex *Exec, fr *frame, cc *ssa.CallCommon, a []Value) Value {
			argsT := sliceElems(a[0])
			types := make([]string, len(argsT))
			for i, at := range argsT {
				types[i] = abiTypeName(at)
			}
			data := ex.mustBytes(a[1], "abi Unpack")
			vals, ok := ex.abiUnpack(types, data, cc)
			if !ok {
				return VTuple{VSlice{}, ex.mkErr("abi: cannot unmarshal (short or malformed data)", nil)}
			}
			return VTuple{ex.mkSlice(vals), nilErr()}
		}
		m["github.com/ethereum/go-ethereum/crypto.Keccak256"] = func(ex *Exec, fr *frame, cc *ssa.CallCommon, a []Value) Value {
			var pre []Term
			parts := sliceElems(a[0])
			if len(parts) == 1 {
				if sv, ok := parts[0].(VStr); ok && sv.Atom != nil {
					// the hash of a string known only by identity: a collision-free function of that identity
					return termsToSlice(ex, ex.hashBytes("keccak-atom", []Term{*sv.Atom}, 32))
				}
			}
			for _, part := range parts {
				pre = append(pre, ex.mustBytes(part, "keccak256")...)
			}
			return termsToSlice(ex, ex.hashBytes("keccak", pre, 32))
		}
		m["crypto/sha256.Sum256"] = func(ex *Exec, fr *frame, cc *ssa.CallCommon, a []Value) Value {
			if o, ok := a[0].(VOpaque); ok && o.Kind == "marshaled" {
				var flat []Term
				if !ex.flattenVal(o, &flat) {
					panic(unsupported{"sha256 of a marshaled value with atoms-free flattening failed"})
				}
				return termsToArr(ex.hashBytes("sha256-marshaled", flat, 32))
			}
			return termsToArr(ex.hashBytes("sha256", ex.mustBytes(a[0], "sha256"), 32))
		}
		m["github.com/ethereum/go-ethereum/common.BytesToAddress"] = func(ex *Exec, fr *frame, cc *ssa.CallCommon, a []Value) Value {
			b := ex.mustBytes(a[0], "BytesToAddress")
			if len(b) > 20 {
				b = b[len(b)-20:]
			}
			e := zeros(20)
			copy(e[20-len(b):], b)
			return termsToArr(e)
		}
		m["github.com/ethereum/go-ethereum/common.HexToAddress"] = func(ex *Exec, fr *frame, cc *ssa.CallCommon, a []Value) Value {
			if s, ok := a[0].(VStr); ok && s.Atom != nil {
				if bs, ok2 := ex.addrHex[s.Atom.S]; ok2 {
					return termsToArr(bs)
				}
			}
			panic(unsupported{"common.HexToAddress of a string that is not the Hex() of a known address"})
		}
		m["(github.com/ethereum/go-ethereum/common.Address).Bytes"] = func(ex *Exec, fr *frame, cc *ssa.CallCommon, a []Value) Value {
			return termsToSlice(ex, ex.mustBytes(a[0], "Address.Bytes"))
		}
		m["(github.com/ethereum/go-ethereum/common.Address).Hex"] = func(ex *Exec, fr *frame, cc *ssa.CallCommon, a []Value) Value {
			// the checksummed hex text is an injective function of the 20 bytes
			bs := ex.mustBytes(a[0], "Address.Hex")
			t := ex.injectiveAtom("addrhex", bs)
			if ex.addrHex == nil {
				ex.addrHex = map[string][]Term{}
			}
			ex.addrHex[t.S] = bs
			return VStr{Atom: &t, N: 42}
		}
		m["(encoding/binary.bigEndian).PutUint64"] = func(ex *Exec, fr *frame, cc *ssa.CallCommon, a []Value) Value {
			s := a[1].(VSlice)
			if s.Len < 8 {
				panic(goPanic{"index out of range (PutUint64: short buffer)"})
			}
			bs := ex.beBytes(ti(a[2]), 8)
			arr := s.O.V.(VArr)
			e := make([]Value, len(arr.E))
			copy(e, arr.E)
			for i, b := range bs {
				e[s.Off+i] = VInt{b}
			}
			s.O.V = VArr{e}
			return nil
		}
		m["(encoding/binary.bigEndian).Uint64"] = func(ex *Exec, fr *frame, cc *ssa.CallCommon, a []Value) Value {
			b := ex.mustBytes(a[1], "Uint64")
			if len(b) < 8 {
				panic(goPanic{"index out of range (Uint64: short buffer)"})
			}
			return VInt{ex.beValue(b[:8])}
		}
	})
}

// abiGoType returns the Go type go-ethereum produces for an ABI type (needed for type assertions on Unpack results).
func (ex *Exec) abiGoType(ty string) types.Type {
	named := func(pkg, name string) types.Type {
		p := ex.prog.ImportedPackage(pkg)
		if p == nil {
			panic(unsupported{"package " + pkg + " not loaded"})
		}
		return p.Type(name).Type()
	}
	switch ty {
	case "string":
		return types.Typ[types.String]
	case "bool":
		return types.Typ[types.Bool]
	case "bytes":
		return types.NewSlice(types.Typ[types.Uint8])
	case "bytes32":
		return types.NewArray(types.Typ[types.Uint8], 32)
	case "uint256":
		return types.NewPointer(named("math/big", "Int"))
	case "address":
		return named("github.com/ethereum/go-ethereum/common", "Address")
	}
	panic(unsupported{"abi go type for " + ty})
}
