package main

import (
	"fmt"
	"go/constant"
	"go/token"
	"go/types"
	"math/big"
	"math/rand"
	"os"
	"regexp"
	"strings"
	"time"

	"golang.org/x/tools/go/ssa"
)

type choice struct {
	alts []int
	pos  int
}

// Violation is one satisfiable negated obligation (or a feasible panic path) with its model.
type Violation struct {
	Label   string            `json:"label"`
	Kind    string            `json:"kind"` // "assert" | "panic" | "unwind"
	Finding string            `json:"finding,omitempty"` // known-finding id when the model lies inside its region
	Panic   string            `json:"panic,omitempty"`
	Model   map[string]string `json:"model"`
	Picks   map[string]int    `json:"picks"`
	Atoms   map[string]string `json:"atoms,omitempty"` // constant-string atoms: id -> string
}

// PathSample is a model of one complete path with the predicted outcome of every assertion on it
// (used for translator validation against the native run of the same harness).
type PathSample struct {
	Model   map[string]string `json:"model"`
	Picks   map[string]int    `json:"picks"`
	Atoms   map[string]string `json:"atoms,omitempty"`
	Events  []Event           `json:"events"`
	Status  string            `json:"status"`
	MapIter bool              `json:"map_iter"` // the path ranged over a Go map with >1 entry (native order uncontrolled)
}

type Event struct {
	Kind  string `json:"kind"` // assert | reach
	Label string `json:"label"`
	OK    bool   `json:"ok"`
}

type assertRec struct {
	label string
	cond  Term
}

type panicRegion struct {
	finding, substr string
	region          Term
}

type Config struct {
	Tier         int
	MaxPaths     int
	QueryTimeout int // ms
	Deadline     time.Time
	Abstract     bool // abstract mode for non-linear LegacyDec Mul/Quo
	Concretize   bool // ask the solver whether a symbolic divisor/factor is forced to one value (grid-drawn operands)
	Unwind       int
	Samples      int
	Seed         int64
	Known        map[string]bool // listed known-finding ids
	Verbose      bool
	Pin          map[string]string // nd values pinned (translator validation / debugging)
	PinPicks     map[string]int
}

type Exec struct {
	prog        *ssa.Program
	solver      *Solver // one-shot (reset per query): non-linear slices
	inc         *Solver // incremental (push/pop): linear slices
	incDeclared map[int]bool
	NLQueries, LinQueries int
	cfg         Config
	name        string

	// DFS state
	prefix  []choice
	forkIdx int

	// per-run state
	pc        []Term
	auxSeq    int
	declText  map[string]string
	declared  map[string]bool
	ndNames   []string
	ndSeen    map[string]bool
	picks     map[string]int
	asserts   []assertRec
	events    []Event
	regions   []panicRegion
	allowed   []string
	mapIter   bool
	globals   map[*ssa.Global]*Obj
	objSeq    int
	depth     int
	symIfs    map[ssa.Instruction]int
	base      map[*ssa.Global]*Obj
	initDone  map[*ssa.Package]bool
	inInit    int
	lenientFn *ssa.Function
	hashes    map[string][]hashFact
	beMemo    map[string]Term
	divMemo   map[string][2]Term
	nnVars    map[int]bool // solver constants known to be >= 0 on the current path
	held      map[string]int // mutexes held on the current path (key: object id / field path)
	guards    []lockGuard    // state declared to be guarded by a mutex (ndGuardedBy)
	rawKeys   map[*Obj]Value // byte buffers holding a KeyCodec-encoded key (kept structural)
	LabelFinding map[string]string // assert label -> known-finding id it is split by (ndAssertK)
	StoreOps  int // collection accesses on the current path
	cfgEpoch  int // which "node" is executing (ndNodeConfig): node-local configuration reads are per epoch
	constMemo map[string]Term
	addrHex   map[string][]Term
	constAtoms map[string]int64

	// statistics
	Paths, Instrs   int
	Merged          int
	Reached         map[string]int
	Violations      []Violation
	violCount       map[string]int
	Discharged      map[string]int
	Unknown         map[string]int
	UnknownForks    int
	Statuses        map[string]int
	FuncsEncoded    map[string]bool
	intr            map[string]intrinsic
	errSentinels    map[string]*ErrVal
	unsupportedSeen map[string]int
	lastPanic       string
	where           string
	curInstr        ssa.Instruction
	Samples         []PathSample
	TimedOut        bool
	PathCapHit      bool
	UnwindHits      int
	rng             *rand.Rand
}

type intrinsic func(ex *Exec, fr *frame, call *ssa.CallCommon, args []Value) Value

type frame struct {
	fn     *ssa.Function
	env    map[ssa.Value]Value
	defers []func()
	locals []Value
}

func NewExec(prog *ssa.Program, name string, cfg Config) (*Exec, error) {
	if cfg.MaxPaths == 0 {
		cfg.MaxPaths = 20000
	}
	if cfg.QueryTimeout == 0 {
		cfg.QueryTimeout = 30000
	}
	if cfg.Unwind == 0 {
		cfg.Unwind = 12
	}
	ex := &Exec{prog: prog, name: name, cfg: cfg, Reached: map[string]int{}, Discharged: map[string]int{}, Unknown: map[string]int{}, Statuses: map[string]int{},
		FuncsEncoded: map[string]bool{}, errSentinels: map[string]*ErrVal{}, unsupportedSeen: map[string]int{},
		declText: map[string]string{}, declared: map[string]bool{}, constAtoms: map[string]int64{}, violCount: map[string]int{}}
	ex.base = map[*ssa.Global]*Obj{}
	ex.initDone = map[*ssa.Package]bool{}
	ex.rng = rand.New(rand.NewSource(cfg.Seed + 1))
	ex.intr = intrinsicTable()
	bin := os.Getenv("VERIF_SOLVER")
	if bin == "" {
		bin = "z3-new"
	}
	var err error
	if ex.solver, err = NewSolver(bin, false); err != nil {
		return nil, err
	}
	if ex.inc, err = NewSolver(bin, true); err != nil {
		return nil, err
	}
	return ex, nil
}

func (ex *Exec) Close() {
	ex.solver.Close()
	ex.inc.Close()
}

// Explore runs fn over all paths.
func (ex *Exec) Explore(fn *ssa.Function) {
	ex.prefix = nil
	for {
		ex.runOnce(fn)
		ex.Paths++
		if ex.cfg.Verbose && ex.Paths%50 == 0 {
			fmt.Fprintf(os.Stderr, "[%s] ... %d paths, %d queries, statuses %v\n", ex.name, ex.Paths, ex.solver.Queries+ex.inc.Queries, ex.Statuses)
		}
		// backtrack
		for len(ex.prefix) > 0 && ex.prefix[len(ex.prefix)-1].pos == len(ex.prefix[len(ex.prefix)-1].alts)-1 {
			ex.prefix = ex.prefix[:len(ex.prefix)-1]
		}
		if len(ex.prefix) == 0 {
			return
		}
		if ex.Paths >= ex.cfg.MaxPaths {
			ex.PathCapHit = true
			return
		}
		if !ex.cfg.Deadline.IsZero() && time.Now().After(ex.cfg.Deadline) {
			ex.TimedOut = true
			return
		}
		ex.prefix[len(ex.prefix)-1].pos++
	}
}

func (ex *Exec) runOnce(fn *ssa.Function) {
	ex.forkIdx = 0
	ex.ndNames = nil
	ex.ndSeen = map[string]bool{}
	ex.picks = map[string]int{}
	ex.asserts = nil
	ex.events = nil
	ex.regions = nil
	ex.allowed = nil
	ex.mapIter = false
	ex.globals = map[*ssa.Global]*Obj{}
	ex.symIfs = map[ssa.Instruction]int{}
	ex.hashes = map[string][]hashFact{}
	ex.beMemo = map[string]Term{}
	ex.divMemo = map[string][2]Term{}
	ex.nnVars = map[int]bool{}
	ex.held, ex.guards = map[string]int{}, nil
	ex.StoreOps, ex.cfgEpoch = 0, 0
	ex.constMemo = map[string]Term{}
	ex.addrHex = map[string][]Term{}
	ex.objSeq = 0
	ex.auxSeq = 0
	ex.depth = 0
	ex.pc = ex.pc[:0]
	status := "ok"
	var pval string
	func() {
		defer func() {
			if r := recover(); r != nil {
				switch v := r.(type) {
				case goPanic:
					status = "panic"
					pval = fmt.Sprint(v.val)
				case pathEnd:
					status = "end: " + v.why
				case unsupported:
					status = "unsupported"
					ex.unsupportedSeen[v.what+" @ "+ex.whereNow()]++
				default:
					if os.Getenv("VERIF_CRASH") != "" {
						panic(r)
					}
					status = "unsupported"
					ex.unsupportedSeen["internal: "+fmt.Sprint(r)+" @ "+ex.whereNow()]++
				}
			}
		}()
		ex.call(fn, nil, nil)
	}()
	if status == "panic" {
		ex.lastPanic = pval
		ex.onPanicPath(pval)
	}
	ex.Statuses[status]++
	if status == "ok" || status == "panic" {
		ex.maybeSample(status, pval)
	}
}

func (ex *Exec) whereNow() string {
	if ex.curInstr == nil {
		return "?"
	}
	fn := ex.curInstr.Parent()
	pos := ex.prog.Fset.Position(ex.curInstr.Pos())
	return fmt.Sprintf("%s %s:%d [%s]", fn.String(), pos.Filename, pos.Line, ex.curInstr.String())
}

// onPanicPath: every harness carries an implicit no-panic obligation.
func (ex *Exec) onPanicPath(pval string) {
	for _, a := range ex.allowed {
		if strings.Contains(pval, a) {
			ex.Statuses["panic(allowed)"]++
			return
		}
	}
	label := "no-panic: " + normPanic(pval)
	for _, pr := range ex.regions {
		if !strings.Contains(pval, pr.substr) {
			continue
		}
		// outside the region?
		if r := ex.queryAll(Not(pr.region)); r == "sat" {
			ex.recordViolation(label, "panic", "", pval)
		} else if r != "unsat" {
			ex.Unknown[label]++
		}
		if r := ex.queryAll(pr.region); r == "sat" {
			ex.recordViolation(label, "panic", pr.finding, pval)
		}
		return
	}
	if r := ex.queryAll(BoolC(true)); r == "sat" {
		ex.recordViolation(label, "panic", "", pval)
	} else if r != "unsat" {
		ex.Unknown[label]++
	}
}

var digitsRe = regexp.MustCompile(`[0-9]+`)

func normPanic(s string) string {
	s = digitsRe.ReplaceAllString(s, "N")
	if len(s) > 80 {
		s = s[:80]
	}
	return s
}

// recordViolation must be called right after a sat answer of ex.solver on the full path condition.
func (ex *Exec) recordViolation(label, kind, finding, pval string) {
	key := label + "|" + finding
	ex.violCount[key]++
	if ex.violCount[key] > 3 {
		return
	}
	v := Violation{Label: label, Kind: kind, Finding: finding, Panic: pval, Model: ex.solver.GetValues(ex.ndNames), Picks: copyPicks(ex.picks), Atoms: ex.atomTable()}
	ex.Violations = append(ex.Violations, v)
}

func copyPicks(m map[string]int) map[string]int {
	o := map[string]int{}
	for k, v := range m {
		o[k] = v
	}
	return o
}

func (ex *Exec) atomTable() map[string]string {
	o := map[string]string{}
	for s, id := range ex.constAtoms {
		o[fmt.Sprint(id)] = s
	}
	return o
}

// maybeSample draws a model of the finished path and evaluates every assertion under it.
func (ex *Exec) maybeSample(status, pval string) {
	if ex.cfg.Samples == 0 {
		return
	}
	// reservoir: always the first few, then with decreasing probability
	if len(ex.Samples) >= ex.cfg.Samples {
		if ex.rng.Intn(ex.Paths+1) >= ex.cfg.Samples {
			return
		}
	}
	if ex.queryAll(BoolC(true)) != "sat" {
		return
	}
	model := ex.solver.GetValues(ex.ndNames)
	var evs []Event
	ai := 0
	for _, e := range ex.events {
		if e.Kind == "assert" {
			a := ex.asserts[ai]
			ai++
			ok := true
			if a.cond.Const {
				ok = a.cond.B
			} else {
				v := ex.solver.GetValueTerm(a.cond.S)
				ok = v == "true"
			}
			evs = append(evs, Event{"assert", e.Label, ok})
		} else {
			evs = append(evs, e)
		}
	}
	st := status
	if status == "panic" {
		st = "panic: " + pval
	}
	ps := PathSample{Model: model, Picks: copyPicks(ex.picks), Atoms: ex.atomTable(), Events: evs, Status: st, MapIter: ex.mapIter}
	if len(ex.Samples) < ex.cfg.Samples {
		ex.Samples = append(ex.Samples, ps)
	} else {
		ex.Samples[ex.rng.Intn(len(ex.Samples))] = ps
	}
}

func (ex *Exec) declare(name, sortName string) {
	if !ex.declared[name] {
		ex.declared[name] = true
		ex.declText[name] = fmt.Sprintf("(declare-const %s %s)", name, sortName)
	}
}

// begin starts a fresh one-shot query context containing the given constraints.
func (ex *Exec) begin(cs []Term, q Term) {
	ex.solver.Send("(reset)")
	ex.solver.Send(fmt.Sprintf("(set-option :timeout %d)", ex.cfg.QueryTimeout))
	seen := map[int]bool{}
	emit := func(t Term) {
		for _, v := range t.V {
			if !seen[v] {
				seen[v] = true
				if d, ok := ex.declText[varName(v)]; ok {
					ex.solver.Send(d)
				}
			}
		}
	}
	for _, c := range cs {
		emit(c)
	}
	emit(q)
	for _, c := range cs {
		ex.solver.Send("(assert " + c.S + ")")
	}
	ex.solver.Send("(assert " + q.S + ")")
}

func (ex *Exec) assume(t Term) {
	if t.Const {
		if !t.B {
			panic(pathEnd{"infeasible"})
		}
		return
	}
	ex.pc = append(ex.pc, t)
	ex.learnSigns(t)
}

// isVar: t is a plain solver constant.
func isVar(t Term) bool { return !t.Const && t.op == 0 && len(t.V) == 1 && t.S == varName(t.V[0]) }

// learnSigns records, from an assumed constraint, which solver constants are known to be non-negative on this path
// (used only to drop sign case splits: |x| = x, x < 0 = false).
func (ex *Exec) learnSigns(c Term) {
	switch c.op {
	case '&':
		ex.learnSigns(c.args[0])
		ex.learnSigns(c.args[1])
	case '>', 'G':
		a, b := c.args[0], c.args[1]
		if isVar(a) && b.Const && (b.I.Sign() >= 0 || (c.op == '>' && b.I.Cmp(big.NewInt(-1)) == 0)) {
			ex.nnVars[a.V[0]] = true
		}
		if isVar(a) && !b.Const && ex.nonneg(b) {
			ex.nnVars[a.V[0]] = true
		}
	case '<', 'L':
		a, b := c.args[0], c.args[1]
		if isVar(b) && a.Const && (a.I.Sign() >= 0 || (c.op == '<' && a.I.Cmp(big.NewInt(-1)) == 0)) {
			ex.nnVars[b.V[0]] = true
		}
		if isVar(b) && !a.Const && ex.nonneg(a) {
			ex.nnVars[b.V[0]] = true
		}
	case '=':
		a, b := c.args[0], c.args[1]
		if isVar(a) && ex.nonneg(b) {
			ex.nnVars[a.V[0]] = true
		}
		if isVar(b) && ex.nonneg(a) {
			ex.nnVars[b.V[0]] = true
		}
	case '!':
		in := c.args[0]
		if in.op == '<' && isVar(in.args[0]) && in.args[1].Const && in.args[1].I.Sign() <= 0 {
			ex.nnVars[in.args[0].V[0]] = true
		}
	}
}

// nonneg: t >= 0 on every value allowed by the path condition, as far as the structure shows.
func (ex *Exec) nonneg(t Term) bool {
	if t.Bool {
		return false
	}
	if t.Const {
		return t.I.Sign() >= 0
	}
	if isVar(t) {
		return ex.nnVars[t.V[0]]
	}
	switch t.op {
	case '+':
		return ex.nonneg(t.args[0]) && ex.nonneg(t.args[1])
	case '*':
		return t.args[1].I.Sign() >= 0 && ex.nonneg(t.args[0])
	case 'i':
		return ex.nonneg(t.args[1]) && ex.nonneg(t.args[2])
	}
	return false
}

// absT / ltZero: |t| and t < 0 with the sign knowledge applied.
func (ex *Exec) absT(t Term) Term {
	if ex.nonneg(t) {
		return t
	}
	return Abs(t)
}

func (ex *Exec) ltZero(t Term) Term {
	if ex.nonneg(t) {
		return BoolC(false)
	}
	return Lt(t, IntC(0))
}

// slice returns the constraints of the path condition transitively sharing solver constants with q
// (KLEE-style constraint independence).
func (ex *Exec) pcSlice(q Term) []Term {
	rel := map[int]bool{}
	for _, v := range q.V {
		rel[v] = true
	}
	used := make([]bool, len(ex.pc))
	var out []Term
	for changed := true; changed; {
		changed = false
		for i, c := range ex.pc {
			if used[i] {
				continue
			}
			hit := false
			for _, v := range c.V {
				if rel[v] {
					hit = true
					break
				}
			}
			if hit {
				used[i] = true
				out = append(out, c)
				for _, v := range c.V {
					if !rel[v] {
						rel[v] = true
						changed = true
					}
				}
			}
		}
	}
	return out
}

// query checks satisfiability of (relevant slice of path condition) AND q.
func (ex *Exec) query(q Term, keep bool) string {
	sl := ex.pcSlice(q)
	nl := q.NL
	for _, c := range sl {
		nl = nl || c.NL
	}
	if nl || os.Getenv("VERIF_NOINC") != "" {
		ex.NLQueries++
		ex.begin(sl, q)
		return ex.solver.Check()
	}
	ex.LinQueries++
	if ex.incDeclared == nil {
		ex.incDeclared = map[int]bool{}
		ex.inc.Send(fmt.Sprintf("(set-option :timeout %d)", ex.cfg.QueryTimeout))
	}
	emit := func(t Term) {
		for _, v := range t.V {
			if !ex.incDeclared[v] {
				ex.incDeclared[v] = true
				if d, ok := ex.declText[varName(v)]; ok {
					ex.inc.Send(d)
				}
			}
		}
	}
	for _, c := range sl {
		emit(c)
	}
	emit(q)
	ex.inc.Send("(push 1)")
	for _, c := range sl {
		ex.inc.Send("(assert " + c.S + ")")
	}
	ex.inc.Send("(assert " + q.S + ")")
	r := ex.inc.Check()
	if qstat {
		n := len(q.S)
		for _, c := range sl {
			n += len(c.S)
		}
		fmt.Fprintf(os.Stderr, "QSTAT slice=%d pc=%d bytes=%d res=%s\n", len(sl), len(ex.pc), n, r)
	}
	ex.inc.Send("(pop 1)")
	if r == "unknown" {
		// second opinion from the default tactic
		ex.NLQueries++
		ex.begin(sl, q)
		return ex.solver.Check()
	}
	return r
}

var qstat = os.Getenv("VERIF_QSTAT") != ""

// queryAll is like query but sends the whole path condition (used when a model is wanted).
func (ex *Exec) queryAll(q Term) string {
	ex.begin(ex.pc, q)
	return ex.solver.Check()
}

// aux introduces a fresh Int constant.
func (ex *Exec) aux(prefix string) Term {
	ex.auxSeq++
	n := fmt.Sprintf("%s_%d", prefix, ex.auxSeq)
	ex.declare(n, "Int")
	return IntVar(n)
}

// choose picks one alternative among mutually exclusive conditions.
func (ex *Exec) choose(conds []Term) int {
	if ex.inInit > 0 {
		panic(unsupported{"symbolic branch inside a package initialiser"})
	}
	k := ex.forkIdx
	ex.forkIdx++
	if k < len(ex.prefix) {
		c := ex.prefix[k].alts[ex.prefix[k].pos]
		ex.assume(conds[c])
		return c
	}
	var feas []int
	for i, c := range conds {
		if c.Const {
			if c.B {
				feas = append(feas, i)
			}
			continue
		}
		if len(conds) == 2 && i == 1 && len(feas) == 0 && !conds[0].Const {
			// conds are complementary and the path condition is satisfiable: the first being infeasible
			// makes the second feasible without asking
			feas = append(feas, i)
			continue
		}
		r := ex.query(c, false)
		if r == "unknown" {
			ex.UnknownForks++
		}
		if r != "unsat" {
			feas = append(feas, i)
		}
	}
	if len(feas) == 0 {
		panic(pathEnd{"infeasible"})
	}
	ex.prefix = append(ex.prefix, choice{alts: feas})
	ex.assume(conds[feas[0]])
	return feas[0]
}

func (ex *Exec) decide(c Term) bool {
	if c.Const {
		return c.B
	}
	return ex.choose([]Term{c, Not(c)}) == 0
}

// concretize forces a symbolic int into one of [lo,hi] by forking; returns -1 when outside.
func (ex *Exec) concretize(t Term, lo, hi int) int {
	if t.Const {
		if !t.I.IsInt64() {
			return -1
		}
		v := int(t.I.Int64())
		if v < lo || v > hi {
			return -1
		}
		return v
	}
	conds := make([]Term, 0, hi-lo+2)
	for i := lo; i <= hi; i++ {
		conds = append(conds, Eq(t, IntC(int64(i))))
	}
	conds = append(conds, Or(Lt(t, IntC(int64(lo))), Gt(t, IntC(int64(hi)))))
	c := ex.choose(conds)
	if c == hi-lo+1 {
		return -1
	}
	return lo + c
}

func (ex *Exec) newObj(v Value) *Obj {
	ex.objSeq++
	return &Obj{V: v, ID: ex.objSeq}
}

// ---------------------------------------------------------------- calls

func (ex *Exec) call(fn *ssa.Function, args []Value, bind []Value) Value {
	if fn.Blocks == nil {
		panic(unsupported{"external function without body: " + fn.String()})
	}
	ex.depth++
	if ex.depth > 80 {
		panic(unsupported{"call depth"})
	}
	defer func() { ex.depth-- }()
	if ex.lenientFn == fn {
		return ex.callLenient(fn)
	}
	ex.FuncsEncoded[fn.String()] = true
	fr := &frame{fn: fn, env: map[ssa.Value]Value{}}
	for i, p := range fn.Params {
		fr.env[p] = args[i]
	}
	for i, fv := range fn.FreeVars {
		fr.env[fv] = bind[i]
	}
	blk := fn.Blocks[0]
	var prev *ssa.BasicBlock
	for {
		var next *ssa.BasicBlock
		// phis first (parallel)
		var phiVals []Value
		var phis []*ssa.Phi
		for _, in := range blk.Instrs {
			p, ok := in.(*ssa.Phi)
			if !ok {
				break
			}
			for i, pred := range blk.Preds {
				if pred == prev {
					phiVals = append(phiVals, ex.val(fr, p.Edges[i]))
					phis = append(phis, p)
					break
				}
			}
		}
		for i, p := range phis {
			fr.env[p] = phiVals[i]
		}
		for _, in := range blk.Instrs {
			ex.Instrs++
			if ex.Instrs&0x3fff == 0 && !ex.cfg.Deadline.IsZero() && time.Now().After(ex.cfg.Deadline) {
				ex.TimedOut = true
				panic(pathEnd{"deadline"})
			}
			ex.curInstr = in
			switch v := in.(type) {
			case *ssa.Phi:
				continue
			case *ssa.If:
				c := ex.val(fr, v.Cond).(VBool)
				if !c.T.Const {
					ex.symIfs[v]++
					if ex.symIfs[v] > ex.cfg.Unwind*4 {
						ex.UnwindHits++
						panic(pathEnd{"unwind"})
					}
				}
				if !c.T.Const && ex.lenientFn == nil && os.Getenv("VERIF_NOMERGE") == "" {
					if join, retv, isRet, ok := ex.ifConvert(fr, blk, c.T); ok {
						if isRet {
							return retv
						}
						next = join
						blk = nil // phis of the join are already bound
						break
					}
				}
				if ex.decide(c.T) {
					next = blk.Succs[0]
				} else {
					next = blk.Succs[1]
				}
			case *ssa.Jump:
				next = blk.Succs[0]
			case *ssa.Return:
				ex.runDefers(fr)
				switch len(v.Results) {
				case 0:
					return nil
				case 1:
					return ex.val(fr, v.Results[0])
				default:
					t := make(VTuple, len(v.Results))
					for i, r := range v.Results {
						t[i] = ex.val(fr, r)
					}
					return t
				}
			case *ssa.Panic:
				panic(goPanic{ex.describe(ex.val(fr, v.X))})
			case *ssa.RunDefers:
				ex.runDefers(fr)
			case *ssa.Defer:
				cc := v.Call
				args := ex.evalArgs(fr, &cc)
				fr.defers = append(fr.defers, func() { ex.doCall(fr, &cc, args) })
			case *ssa.Store:
				ex.val(fr, v.Addr).(VPtr).store(ex.val(fr, v.Val))
			case *ssa.MapUpdate:
				ex.mapUpdate(ex.val(fr, v.Map).(VMap), ex.val(fr, v.Key), ex.val(fr, v.Value))
			case *ssa.DebugRef:
			case ssa.Value:
				fr.env[v] = ex.evalInstr(fr, v)
			default:
				panic(unsupported{fmt.Sprintf("instruction %T", in)})
			}
		}
		if next == nil {
			panic(unsupported{"fell off block in " + fn.String()})
		}
		prev, blk = blk, next
	}
}

// ifConvert: if-conversion of small pure diamonds/triangles and of two-way pure returns. Instead of forking the
// path on a symbolic condition, both arms (straight-line integer/boolean arithmetic without side effects) are
// evaluated and the results merged with ite. Returns the join block (phis bound) or the merged return value.
func (ex *Exec) ifConvert(fr *frame, ifBlk *ssa.BasicBlock, c Term) (join *ssa.BasicBlock, retv Value, isRet, ok bool) {
	defer func() {
		if r := recover(); r != nil {
			ok = false
		}
	}()
	tb, eb := ifBlk.Succs[0], ifBlk.Succs[1]
	type arm struct {
		blk  *ssa.BasicBlock // nil when the edge goes straight to the join
		term ssa.Instruction
	}
	evalArm := func(b *ssa.BasicBlock) (ssa.Instruction, bool) {
		if len(b.Preds) != 1 {
			return nil, false
		}
		if len(b.Instrs) > 12 {
			return nil, false
		}
		for _, in := range b.Instrs {
			switch x := in.(type) {
			case *ssa.DebugRef:
			case *ssa.BinOp:
				switch x.Op {
				case token.QUO, token.REM, token.SHL, token.SHR:
					return nil, false
				}
				l, r := ex.val(fr, x.X), ex.val(fr, x.Y)
				if !isScalar(l) || !isScalar(r) {
					return nil, false
				}
				fr.env[x] = ex.binop(x.Op, l, r, x.X.Type(), x.Type())
			case *ssa.UnOp:
				if x.Op != token.NOT && x.Op != token.SUB {
					return nil, false
				}
				if !isScalar(ex.val(fr, x.X)) {
					return nil, false
				}
				fr.env[x] = ex.evalInstr(fr, x)
			case *ssa.Convert:
				if !isScalar(ex.val(fr, x.X)) || basicOf(x.Type()) == nil || basicOf(x.Type()).Info()&types.IsInteger == 0 {
					return nil, false
				}
				fr.env[x] = ex.evalInstr(fr, x)
			case *ssa.ChangeType:
				fr.env[x] = ex.val(fr, x.X)
			case *ssa.Jump, *ssa.Return:
				return in, true
			default:
				return nil, false
			}
		}
		return nil, false
	}
	merge := func(a, b Value) (Value, bool) {
		switch x := a.(type) {
		case VInt:
			if y, ok := b.(VInt); ok {
				return VInt{ex.nameT(Ite(c, x.T, y.T))}, true
			}
		case VBool:
			if y, ok := b.(VBool); ok {
				return VBool{ex.nameT(Ite(c, x.T, y.T))}, true
			}
		}
		return nil, false
	}
	// shape 1: both arms return
	// shape 2: diamond / triangle into a common join
	var tTerm, eTerm ssa.Instruction
	tDirect, eDirect := false, false
	// triangle detection: one successor is the join of the other
	if t, okT := evalArm(tb); okT {
		tTerm = t
	} else {
		tDirect = true
	}
	if e, okE := evalArm(eb); okE {
		eTerm = e
	} else {
		eDirect = true
	}
	if tDirect && eDirect {
		return nil, nil, false, false
	}
	tRet, tIsRet := tTerm.(*ssa.Return)
	eRet, eIsRet := eTerm.(*ssa.Return)
	if tIsRet && eIsRet && !tDirect && !eDirect {
		if len(fr.defers) != 0 || len(tRet.Results) != len(eRet.Results) {
			return nil, nil, false, false
		}
		vals := make(VTuple, len(tRet.Results))
		for i := range vals {
			mv, okm := merge(ex.val(fr, tRet.Results[i]), ex.val(fr, eRet.Results[i]))
			if !okm {
				return nil, nil, false, false
			}
			vals[i] = mv
		}
		switch len(vals) {
		case 0:
			return nil, nil, true, true
		case 1:
			return nil, vals[0], true, true
		}
		return nil, vals, true, true
	}
	if tIsRet || eIsRet {
		return nil, nil, false, false
	}
	// joins
	var tFrom, eFrom *ssa.BasicBlock
	var tJoin, eJoin *ssa.BasicBlock
	if tDirect {
		tJoin, tFrom = tb, ifBlk
	} else {
		tJoin, tFrom = tb.Succs[0], tb
	}
	if eDirect {
		eJoin, eFrom = eb, ifBlk
	} else {
		eJoin, eFrom = eb.Succs[0], eb
	}
	if tJoin != eJoin {
		return nil, nil, false, false
	}
	// a direct edge must really be an edge into the join (triangle), and the join must have exactly these two preds
	if len(tJoin.Preds) != 2 {
		return nil, nil, false, false
	}
	type bind struct {
		p *ssa.Phi
		v Value
	}
	var binds []bind
	for _, in := range tJoin.Instrs {
		p, isPhi := in.(*ssa.Phi)
		if !isPhi {
			break
		}
		var tv, ev Value
		for i, pred := range tJoin.Preds {
			if pred == tFrom {
				tv = ex.val(fr, p.Edges[i])
			}
			if pred == eFrom {
				ev = ex.val(fr, p.Edges[i])
			}
		}
		if tv == nil || ev == nil {
			return nil, nil, false, false
		}
		mv, okm := merge(tv, ev)
		if !okm {
			return nil, nil, false, false
		}
		binds = append(binds, bind{p, mv})
	}
	for _, b := range binds {
		fr.env[b.p] = b.v
	}
	ex.Merged++
	return tJoin, nil, false, true
}

func isScalar(v Value) bool {
	switch v.(type) {
	case VInt, VBool:
		return true
	}
	return false
}

// callLenient executes a package initialiser: straight-line, every instruction that cannot be evaluated
// yields poison instead of aborting.
func (ex *Exec) callLenient(fn *ssa.Function) Value {
	fr := &frame{fn: fn, env: map[ssa.Value]Value{}}
	blk := fn.Blocks[0]
	var prev *ssa.BasicBlock
	try := func(f func()) (ok bool) {
		saved := ex.lenientFn
		ex.lenientFn = nil
		d := ex.depth
		defer func() {
			ex.lenientFn = saved
			ex.depth = d
			if r := recover(); r != nil {
				ok = false
			}
		}()
		f()
		return true
	}
	for steps := 0; steps < 100000; steps++ {
		var next *ssa.BasicBlock
		for _, in := range blk.Instrs {
			if p, ok := in.(*ssa.Phi); ok {
				for i, pred := range blk.Preds {
					if pred == prev {
						v := p.Edges[i]
						if !try(func() { fr.env[p] = ex.val(fr, v) }) {
							fr.env[p] = poison
						}
					}
				}
				continue
			}
			switch v := in.(type) {
			case *ssa.If:
				var c VBool
				if !try(func() { c = ex.val(fr, v.Cond).(VBool) }) || !c.T.Const {
					return nil // cannot continue this initialiser
				}
				if c.T.B {
					next = blk.Succs[0]
				} else {
					next = blk.Succs[1]
				}
			case *ssa.Jump:
				next = blk.Succs[0]
			case *ssa.Return:
				return nil
			case *ssa.Panic:
				return nil
			case *ssa.Store:
				if g, ok := v.Addr.(*ssa.Global); ok && g.Name() == "init$guard" {
					continue
				}
				if !try(func() { ex.val(fr, v.Addr).(VPtr).store(ex.val(fr, v.Val)) }) {
					try(func() { ex.val(fr, v.Addr).(VPtr).store(poison) })
				}
			case *ssa.MapUpdate:
				try(func() { ex.mapUpdate(ex.val(fr, v.Map).(VMap), ex.val(fr, v.Key), ex.val(fr, v.Value)) })
			case *ssa.Call:
				if callee := v.Call.StaticCallee(); callee != nil && callee.Synthetic == "package initializer" {
					continue // other packages are initialised lazily on first access
				}
				if !try(func() { fr.env[v] = ex.evalInstr(fr, v) }) {
					fr.env[v] = poison
				}
			case *ssa.DebugRef, *ssa.RunDefers, *ssa.Defer:
			case ssa.Value:
				if !try(func() { fr.env[v] = ex.evalInstr(fr, v) }) {
					fr.env[v] = poison
				}
			}
		}
		if next == nil {
			return nil
		}
		prev, blk = blk, next
	}
	return nil
}

func (ex *Exec) runDefers(fr *frame) {
	for i := len(fr.defers) - 1; i >= 0; i-- {
		fr.defers[i]()
	}
	fr.defers = nil
}

func (ex *Exec) evalArgs(fr *frame, cc *ssa.CallCommon) []Value {
	var args []Value
	if cc.IsInvoke() {
		args = append(args, ex.val(fr, cc.Value))
	}
	for _, a := range cc.Args {
		args = append(args, ex.val(fr, a))
	}
	return args
}

func fnKey(f *ssa.Function) string {
	if o := f.Origin(); o != nil {
		return o.String()
	}
	return f.String()
}

func (ex *Exec) doCall(fr *frame, cc *ssa.CallCommon, args []Value) Value {
	if cc.IsInvoke() {
		if _, isOpaque := args[0].(VOpaque); isOpaque {
			// an interface value produced by an intrinsic constructor (key codecs ...): only intrinsics apply
			key := "invoke:" + cc.Value.Type().String() + "." + cc.Method.Name()
			if in, ok := ex.intr[key]; ok {
				return in(ex, fr, cc, args)
			}
			if o := args[0].(VOpaque); o.Kind == "codec" {
				// key codecs: the encoded form of a key is the key itself, remembered per destination buffer
				switch cc.Method.Name() {
				case "Size":
					return VInt{IntC(1)}
				case "Encode":
					buf, ok := args[1].(VSlice)
					if !ok || buf.O == nil {
						panic(unsupported{"KeyCodec.Encode into a nil buffer"})
					}
					if ex.rawKeys == nil {
						ex.rawKeys = map[*Obj]Value{}
					}
					ex.rawKeys[buf.O] = args[2]
					return VTuple{VInt{IntC(1)}, nilErr()}
				}
			}
			panic(unsupported{"no intrinsic for " + key})
		}
		recv := args[0].(VIface)
		if recv.Typ == nil {
			panic(goPanic{"nil interface method call " + cc.Method.Name()})
		}
		// intrinsic on interface method?
		key := "invoke:" + cc.Value.Type().String() + "." + cc.Method.Name()
		if in, ok := ex.intr[key]; ok {
			return in(ex, fr, cc, args)
		}
		ms := ex.prog.MethodSets.MethodSet(recv.Typ)
		sel := ms.Lookup(cc.Method.Pkg(), cc.Method.Name())
		if sel == nil {
			panic(unsupported{"method not found " + cc.Method.Name() + " on " + recv.Typ.String()})
		}
		fn := ex.prog.MethodValue(sel)
		return ex.callFn(fr, cc, fn, append([]Value{recv.V}, args[1:]...), nil)
	}
	switch f := cc.Value.(type) {
	case *ssa.Builtin:
		return ex.builtin(fr, f, cc, args)
	case *ssa.Function:
		return ex.callFn(fr, cc, f, args, nil)
	case *ssa.MakeClosure:
		c := ex.val(fr, f).(VClos)
		return ex.callFn(fr, cc, c.Fn, args, c.Bind)
	default:
		c, ok := ex.val(fr, cc.Value).(VClos)
		if !ok || c.Fn == nil {
			panic(goPanic{"call of nil func"})
		}
		return ex.callFn(fr, cc, c.Fn, args, c.Bind)
	}
}

func (ex *Exec) callFn(fr *frame, cc *ssa.CallCommon, fn *ssa.Function, args []Value, bind []Value) Value {
	key := fnKey(fn)
	if in, ok := ex.intr[key]; ok {
		return in(ex, fr, cc, args)
	}
	if (strings.HasPrefix(fn.Name(), "nd") || fn.Name() == "nm") && inModule(fn) {
		base := fn.Name()
		if o := fn.Origin(); o != nil {
			base = o.Name()
		}
		if in, ok := ex.intr["nd:"+base]; ok {
			return in(ex, fr, cc, args)
		}
	}
	if !inModule(fn) && !allowExternal(key) {
		panic(unsupported{"no intrinsic for " + key})
	}
	return ex.call(fn, args, bind)
}

func inModule(f *ssa.Function) bool {
	o := f
	if f.Origin() != nil {
		o = f.Origin()
	}
	for o.Parent() != nil {
		o = o.Parent()
	}
	if o.Pkg != nil {
		return strings.HasPrefix(o.Pkg.Pkg.Path(), "github.com/tellor-io/layer")
	}
	if o.Object() != nil && o.Object().Pkg() != nil {
		return strings.HasPrefix(o.Object().Pkg().Path(), "github.com/tellor-io/layer")
	}
	// wrappers / bound methods: look at receiver type
	if o.Signature.Recv() != nil {
		return strings.Contains(o.Signature.Recv().Type().String(), "github.com/tellor-io/layer")
	}
	return false
}


// ---------------------------------------------------------------- values

func (ex *Exec) val(fr *frame, v ssa.Value) Value {
	switch x := v.(type) {
	case *ssa.Const:
		return ex.constVal(x)
	case *ssa.Function:
		return VClos{Fn: x}
	case *ssa.Global:
		return VPtr{O: ex.global(x)}
	case *ssa.Builtin:
		return VOpaque{Kind: "builtin", Data: x}
	}
	r, ok := fr.env[v]
	if !ok {
		panic(fmt.Sprintf("no value for %s (%T) in %s", v.Name(), v, fr.fn))
	}
	return r
}

func (ex *Exec) global(g *ssa.Global) *Obj {
	if ex.inInit > 0 {
		return ex.baseGlobal(g)
	}
	if o, ok := ex.globals[g]; ok {
		return o
	}
	ex.initPkg(g.Pkg)
	base := ex.baseGlobal(g)
	o := ex.newObj(base.V) // per-path copy: assignments to a global never leak into other paths
	ex.globals[g] = o
	return o
}

func (ex *Exec) baseGlobal(g *ssa.Global) *Obj {
	if o, ok := ex.base[g]; ok {
		return o
	}
	if ex.inInit > 0 {
		ex.initPkg(g.Pkg)
		if o, ok := ex.base[g]; ok {
			return o
		}
	}
	et := g.Type().(*types.Pointer).Elem()
	var v Value
	func() {
		defer func() {
			if r := recover(); r != nil {
				v = poison
			}
		}()
		v = ex.zero(et)
	}()
	o := &Obj{V: v, ID: -1}
	ex.base[g] = o
	return o
}

var poison = VOpaque{Kind: "poison"}

// initPkg runs the package initialiser once per Exec, leniently: an initialiser expression the engine cannot
// evaluate leaves its variable poisoned (any later use ends that path UNSUPPORTED), never wrong.
func (ex *Exec) initPkg(p *ssa.Package) {
	if p == nil || ex.initDone[p] {
		return
	}
	ex.initDone[p] = true
	fn := p.Func("init")
	if fn == nil || fn.Blocks == nil {
		return
	}
	ex.inInit++
	savedLenient := ex.lenientFn
	ex.lenientFn = fn
	savedDepth := ex.depth
	func() {
		defer func() {
			if r := recover(); r != nil {
				// abort of this initialiser: remaining globals keep their zero/poison values
				_ = r
			}
		}()
		ex.call(fn, nil, nil)
	}()
	ex.depth = savedDepth
	ex.lenientFn = savedLenient
	ex.inInit--
}

var errorIface = types.Universe.Lookup("error").Type().Underlying().(*types.Interface)
var errMarkerType types.Type = types.NewNamed(types.NewTypeName(token.NoPos, nil, "symError", nil), types.NewStruct(nil, nil), nil)

func isErrorType(t types.Type) bool {
	return types.Identical(t, types.Universe.Lookup("error").Type()) || strings.HasSuffix(t.String(), "errors.Error")
}

func (ex *Exec) sentinel(name string) *ErrVal {
	if e, ok := ex.errSentinels[name]; ok {
		return e
	}
	e := &ErrVal{ID: name, Msg: name}
	ex.errSentinels[name] = e
	return e
}

func (ex *Exec) constVal(c *ssa.Const) Value {
	t := c.Type()
	if c.Value == nil {
		return ex.zero(t)
	}
	switch u := t.Underlying().(type) {
	case *types.Basic:
		switch {
		case u.Info()&types.IsBoolean != 0:
			return VBool{BoolC(constant.BoolVal(c.Value))}
		case u.Info()&types.IsInteger != 0:
			bi, _ := new(big.Int).SetString(constant.ToInt(c.Value).ExactString(), 10)
			return VInt{IntB(bi)}
		case u.Info()&types.IsString != 0:
			return concStr(constant.StringVal(c.Value))
		case u.Info()&types.IsFloat != 0:
			// floats are not modelled: a constant may be passed around (metrics, logging); any arithmetic or
			// comparison on it ends the path as unsupported
			return VOpaque{Kind: "float"}
		}
	}
	panic(unsupported{"const of type " + t.String()})
}

func (ex *Exec) describe(v Value) string {
	switch x := v.(type) {
	case VIface:
		if x.Typ == nil {
			return "nil"
		}
		return ex.describe(x.V)
	case VStr:
		if x.Conc != nil {
			return *x.Conc
		}
		return "<symbolic string>"
	case VOpaque:
		if e, ok := x.Data.(*ErrVal); ok {
			return "error(" + e.Msg + ")"
		}
	}
	return fmt.Sprintf("%T", v)
}

// intRange returns (min,max) of a basic integer type.
func intRange(b *types.Basic) (*big.Int, *big.Int) {
	bits := map[types.BasicKind]uint{types.Int: 64, types.Int8: 8, types.Int16: 16, types.Int32: 32, types.Int64: 64,
		types.Uint: 64, types.Uint8: 8, types.Uint16: 16, types.Uint32: 32, types.Uint64: 64, types.Uintptr: 64,
		types.UntypedInt: 64, types.UntypedRune: 32}[b.Kind()]
	one := big.NewInt(1)
	if b.Info()&types.IsUnsigned != 0 {
		return big.NewInt(0), new(big.Int).Sub(new(big.Int).Lsh(one, bits), one)
	}
	h := new(big.Int).Lsh(one, bits-1)
	return new(big.Int).Neg(h), new(big.Int).Sub(h, one)
}

// wrap reduces t into the range of machine type b (two's complement).
func (ex *Exec) wrap(t Term, b *types.Basic, cheap bool) Term {
	if b == nil {
		return t
	}
	if !t.Const && len(t.S) > 40 {
		t = ex.nameT(t)
	}
	lo, hi := intRange(b)
	size := new(big.Int).Add(new(big.Int).Sub(hi, lo), big.NewInt(1))
	if t.Const {
		v := new(big.Int).Sub(t.I, lo)
		v.Mod(v, size)
		return IntB(v.Add(v, lo))
	}
	if cheap { // result of + or - on in-range operands: at most one wrap
		return Ite(Gt(t, IntB(hi)), Sub(t, IntB(size)), Ite(Lt(t, IntB(lo)), Add(t, IntB(size)), t))
	}
	_, r := ex.divModPos(Sub(t, IntB(lo)), size)
	return Add(r, IntB(lo))
}

func basicOf(t types.Type) *types.Basic {
	b, _ := t.Underlying().(*types.Basic)
	return b
}

func (ex *Exec) evalInstr(fr *frame, v ssa.Value) Value {
	switch x := v.(type) {
	case *ssa.Alloc:
		return VPtr{O: ex.newObj(ex.zero(x.Type().(*types.Pointer).Elem()))}
	case *ssa.BinOp:
		return ex.binop(x.Op, ex.val(fr, x.X), ex.val(fr, x.Y), x.X.Type(), x.Type())
	case *ssa.UnOp:
		a := ex.val(fr, x.X)
		switch x.Op {
		case token.MUL:
			return a.(VPtr).load()
		case token.NOT:
			return VBool{Not(a.(VBool).T)}
		case token.SUB:
			return VInt{ex.wrap(Neg(a.(VInt).T), basicOf(x.Type()), true)}
		}
		panic(unsupported{"unop " + x.Op.String()})
	case *ssa.Call:
		args := ex.evalArgs(fr, &x.Call)
		return ex.doCall(fr, &x.Call, args)
	case *ssa.ChangeType:
		return ex.val(fr, x.X)
	case *ssa.ChangeInterface:
		return ex.val(fr, x.X)
	case *ssa.Convert:
		return ex.convert(ex.val(fr, x.X), x.X.Type(), x.Type())
	case *ssa.MakeInterface:
		return VIface{Typ: x.X.Type(), V: ex.val(fr, x.X)}
	case *ssa.MakeClosure:
		b := make([]Value, len(x.Bindings))
		for i, bb := range x.Bindings {
			b[i] = ex.val(fr, bb)
		}
		return VClos{Fn: x.Fn.(*ssa.Function), Bind: b}
	case *ssa.MakeMap:
		return VMap{M: &MapObj{}}
	case *ssa.MakeSlice:
		n := ex.concretize(ex.val(fr, x.Len).(VInt).T, 0, 8192)
		c := ex.concretize(ex.val(fr, x.Cap).(VInt).T, 0, 8192)
		if n < 0 || c < n {
			panic(unsupported{"make slice with symbolic/large length"})
		}
		et := x.Type().Underlying().(*types.Slice).Elem()
		e := make([]Value, c)
		for i := range e {
			e[i] = ex.zero(et)
		}
		return VSlice{O: ex.newObj(VArr{e}), Len: n, Cap: c}
	case *ssa.Extract:
		return ex.val(fr, x.Tuple).(VTuple)[x.Index]
	case *ssa.Field:
		return ex.val(fr, x.X).(VStruct).F[x.Field]
	case *ssa.FieldAddr:
		p := ex.val(fr, x.X).(VPtr)
		if p.O == nil {
			panic(goPanic{"nil pointer dereference (field)"})
		}
		return p.sub(x.Field)
	case *ssa.IndexAddr:
		idx := ex.val(fr, x.Index).(VInt).T
		switch b := ex.val(fr, x.X).(type) {
		case VSlice:
			i := ex.concretize(idx, 0, b.Len-1)
			if i < 0 {
				panic(goPanic{fmt.Sprintf("index out of range with length %d", b.Len)})
			}
			return VPtr{O: b.O, Path: []int{b.Off + i}}
		case VPtr: // pointer to array
			n := len(b.load().(VArr).E)
			i := ex.concretize(idx, 0, n-1)
			if i < 0 {
				panic(goPanic{fmt.Sprintf("index out of range with length %d", n)})
			}
			return b.sub(i)
		}
		panic(unsupported{"indexaddr base"})
	case *ssa.Index:
		idx := ex.val(fr, x.Index).(VInt).T
		switch b := ex.val(fr, x.X).(type) {
		case VArr:
			i := ex.concretize(idx, 0, len(b.E)-1)
			if i < 0 {
				panic(goPanic{"index out of range"})
			}
			return b.E[i]
		case VStr:
			if b.Atom != nil && b.HexNum {
				// a character of the zero-padded lower-case rendering: the first one is '0' for values below 16^63 and
				// in the alternative spelling
				c := ex.aux("hexchar")
				if idx.Const && idx.I.Sign() == 0 && b.HexLead > 0 {
					return VInt{IntC('0')}
				}
				if idx.Const && idx.I.Sign() == 0 {
					v, bit := ex.hexNumParts(b)
					ex.assume(Or(And(Ge(c, IntC('0')), Le(c, IntC('9'))), And(Ge(c, IntC('a')), Le(c, IntC('f')))))
					return VInt{Ite(Or(Eq(bit, IntC(1)), Lt(v, IntB(pow16(63)))), IntC('0'), c)}
				}
				ex.assume(Or(And(Ge(c, IntC('0')), Le(c, IntC('9'))), And(Ge(c, IntC('a')), Le(c, IntC('f')))))
				return VInt{c}
			}
			if b.IsHexOf {
				// a character of the lower-case hex text of the bytes b.HexOf
				i := ex.concretize(idx, 0, 2*len(b.HexOf)-1)
				if i < 0 {
					panic(goPanic{"string index out of range"})
				}
				hi, lo := ex.divModPos(b.HexOf[i/2], big.NewInt(16))
				n := hi
				if i%2 == 1 {
					n = lo
				}
				return VInt{Ite(Lt(n, IntC(10)), Add(n, IntC('0')), Add(n, IntC('a'-10)))}
			}
			if b.Bytes != nil {
				i := ex.concretize(idx, 0, len(b.Bytes)-1)
				if i < 0 {
					panic(goPanic{"string index out of range"})
				}
				return VInt{b.Bytes[i]}
			}
			if b.Conc != nil {
				i := ex.concretize(idx, 0, len(*b.Conc)-1)
				if i < 0 {
					panic(goPanic{"string index out of range"})
				}
				return VInt{IntC(int64((*b.Conc)[i]))}
			}
		}
		panic(unsupported{"index base"})
	case *ssa.Slice:
		return ex.slice(fr, x)
	case *ssa.Lookup:
		return ex.lookup(fr, x)
	case *ssa.TypeAssert:
		return ex.typeAssert(ex.val(fr, x.X).(VIface), x)
	case *ssa.Range:
		return ex.rangeInit(ex.val(fr, x.X))
	case *ssa.Next:
		return ex.rangeNext(ex.val(fr, x.Iter).(VOpaque), x)
	}
	panic(unsupported{fmt.Sprintf("value instruction %T", v)})
}

func (ex *Exec) typeAssert(i VIface, x *ssa.TypeAssert) Value {
	ok := false
	if i.Typ != nil {
		if types.IsInterface(x.AssertedType) {
			ok = types.Implements(i.Typ, x.AssertedType.Underlying().(*types.Interface)) || i.Typ == errMarkerType && isErrorType(x.AssertedType)
		} else {
			ok = types.Identical(i.Typ, x.AssertedType)
		}
	}
	var res Value
	if ok {
		if types.IsInterface(x.AssertedType) {
			res = i
		} else {
			res = i.V
		}
	} else {
		res = ex.zero(x.AssertedType)
	}
	if x.CommaOk {
		return VTuple{res, VBool{BoolC(ok)}}
	}
	if !ok {
		panic(goPanic{"interface conversion failed"})
	}
	return res
}

func (ex *Exec) slice(fr *frame, x *ssa.Slice) Value {
	get := func(v ssa.Value, def int) int {
		if v == nil {
			return def
		}
		n := ex.concretize(ex.val(fr, v).(VInt).T, 0, 1<<20)
		if n < 0 {
			panic(goPanic{"slice bounds out of range (symbolic/negative)"})
		}
		return n
	}
	switch b := ex.val(fr, x.X).(type) {
	case VSlice:
		lo := get(x.Low, 0)
		hi := get(x.High, b.Len)
		mx := get(x.Max, b.Cap)
		if hi > b.Cap || lo > hi || mx > b.Cap || hi > mx {
			panic(goPanic{fmt.Sprintf("slice bounds out of range [%d:%d] with capacity %d", lo, hi, b.Cap)})
		}
		if b.O == nil {
			return VSlice{}
		}
		return VSlice{O: b.O, Off: b.Off + lo, Len: hi - lo, Cap: mx - lo}
	case VPtr: // *[N]T
		arr := b.load().(VArr)
		if len(b.Path) != 0 {
			panic(unsupported{"slice of nested array"})
		}
		lo := get(x.Low, 0)
		hi := get(x.High, len(arr.E))
		if hi > len(arr.E) || lo > hi {
			panic(goPanic{"slice bounds out of range"})
		}
		return VSlice{O: b.O, Off: lo, Len: hi - lo, Cap: len(arr.E) - lo}
	case VStr:
		if b.Conc != nil {
			lo := get(x.Low, 0)
			hi := get(x.High, len(*b.Conc))
			if hi > len(*b.Conc) || lo > hi {
				panic(goPanic{"slice bounds out of range (string)"})
			}
			return concStr((*b.Conc)[lo:hi])
		}
		if b.Bytes != nil {
			lo := get(x.Low, 0)
			hi := get(x.High, len(b.Bytes))
			if hi > len(b.Bytes) || lo > hi {
				panic(goPanic{"slice bounds out of range (string)"})
			}
			return VStr{Bytes: b.Bytes[lo:hi]}
		}
	}
	panic(unsupported{"slice base"})
}

func (ex *Exec) convert(v Value, from, to types.Type) Value {
	fb, tb := basicOf(from), basicOf(to)
	if fb != nil && tb != nil && fb.Info()&types.IsInteger != 0 && tb.Info()&types.IsInteger != 0 {
		return VInt{ex.wrap(v.(VInt).T, tb, false)}
	}
	_, toSlice := to.Underlying().(*types.Slice)
	_, fromSlice := from.Underlying().(*types.Slice)
	toStr := tb != nil && tb.Info()&types.IsString != 0
	if sv, ok := v.(VStr); ok {
		if toSlice && sv.Atom == nil {
			// string -> []byte: a fresh mutable copy
			ts, _ := ex.byteTerms(sv)
			return termsToSlice(ex, append([]Term{}, ts...))
		}
		return v // atoms: same identity under both types
	}
	if sl, ok := v.(VSlice); ok && fromSlice && toStr {
		ts, _ := ex.byteTerms(sl)
		allc := true
		for _, t := range ts {
			allc = allc && t.Const
		}
		if allc {
			raw := make([]byte, len(ts))
			for i, t := range ts {
				raw[i] = byte(t.I.Int64())
			}
			return concStr(string(raw))
		}
		return VStr{Bytes: append([]Term{}, ts...)}
	}
	if _, isSl := v.(VSlice); isSl && (toSlice || toStr) {
		return v // a byte slice standing in for its textual rendering (address String() modelled as identity)
	}
	if fb != nil && fb.Info()&types.IsInteger != 0 && tb != nil && tb.Info()&types.IsFloat != 0 {
		return VOpaque{Kind: "float"}
	}
	panic(unsupported{"convert " + from.String() + " -> " + to.String()})
}

func (ex *Exec) binop(op token.Token, a, b Value, opType, resType types.Type) Value {
	switch x := a.(type) {
	case VInt:
		y := b.(VInt)
		bt := basicOf(resType)
		switch op {
		case token.ADD:
			return VInt{ex.wrap(Add(x.T, y.T), bt, true)}
		case token.SUB:
			return VInt{ex.wrap(Sub(x.T, y.T), bt, true)}
		case token.MUL:
			return VInt{ex.wrap(Mul(x.T, y.T), bt, false)}
		case token.QUO:
			if !ex.decide(Not(Eq(y.T, IntC(0)))) {
				panic(goPanic{"integer divide by zero"})
			}
			if ex.cfg.Abstract && !y.T.Const {
				// abstract mode: the quotient is an uninterpreted function of its operands
				return VInt{ex.wrap(ex.nameT(ex.ufApp("absidiv", false, ex.nameT(x.T), ex.nameT(y.T))), bt, false)}
			}
			return VInt{ex.wrap(ex.truncDivX(x.T, y.T), bt, true)}
		case token.REM:
			if !ex.decide(Not(Eq(y.T, IntC(0)))) {
				panic(goPanic{"integer divide by zero"})
			}
			return VInt{ex.truncRemX(ex.nameT(x.T), ex.nameT(y.T))}
		case token.SHR, token.SHL:
			if !y.T.Const {
				panic(unsupported{"shift by symbolic amount"})
			}
			p := IntB(new(big.Int).Lsh(big.NewInt(1), uint(y.T.I.Int64())))
			if op == token.SHL {
				return VInt{ex.wrap(Mul(x.T, p), bt, false)}
			}
			q, _ := ex.divModPos(x.T, p.I) // floor division = arithmetic shift for both signs
			return VInt{q}
		case token.AND, token.OR, token.XOR, token.AND_NOT:
			if x.T.Const && y.T.Const {
				var r big.Int
				switch op {
				case token.AND:
					r.And(x.T.I, y.T.I)
				case token.OR:
					r.Or(x.T.I, y.T.I)
				case token.XOR:
					r.Xor(x.T.I, y.T.I)
				default:
					r.AndNot(x.T.I, y.T.I)
				}
				return VInt{ex.wrap(IntB(&r), bt, false)}
			}
			if op == token.AND {
				// x & (2^k - 1) on an unsigned operand is x mod 2^k
				c, o := y.T, x.T
				if x.T.Const {
					c, o = x.T, y.T
				}
				if c.Const && c.I.Sign() >= 0 && bt != nil && bt.Info()&types.IsUnsigned != 0 {
					p := new(big.Int).Add(c.I, big.NewInt(1))
					if p.BitLen() > 0 && new(big.Int).And(p, c.I).Sign() == 0 {
						_, r := ex.divModPos(o, p)
						return VInt{r}
					}
				}
			}
			panic(unsupported{"bitwise " + op.String() + " on symbolic operands"})
		case token.LSS:
			return VBool{Lt(x.T, y.T)}
		case token.LEQ:
			return VBool{Le(x.T, y.T)}
		case token.GTR:
			return VBool{Gt(x.T, y.T)}
		case token.GEQ:
			return VBool{Ge(x.T, y.T)}
		case token.EQL:
			return VBool{Eq(x.T, y.T)}
		case token.NEQ:
			return VBool{Not(Eq(x.T, y.T))}
		}
	case VBool:
		y := b.(VBool)
		switch op {
		case token.EQL:
			return VBool{Eq(x.T, y.T)}
		case token.NEQ:
			return VBool{Not(Eq(x.T, y.T))}
		case token.AND:
			return VBool{And(x.T, y.T)}
		case token.OR:
			return VBool{Or(x.T, y.T)}
		}
	case VIface:
		y := b.(VIface)
		eq := ex.ifaceEq(x, y)
		if op == token.EQL {
			return VBool{eq}
		}
		if op == token.NEQ {
			return VBool{Not(eq)}
		}
	case VStr:
		if ys, ok := b.(VSlice); ok {
			// []byte held as a string value compared with a (nil) slice
			if ys.O == nil {
				return VBool{BoolC(op == token.NEQ)}
			}
			eq := ex.bytesEq(x, ys)
			if op == token.NEQ {
				eq = Not(eq)
			}
			return VBool{eq}
		}
		y := b.(VStr)
		switch op {
		case token.EQL:
			return VBool{ex.strEq(x, y)}
		case token.NEQ:
			return VBool{Not(ex.strEq(x, y))}
		case token.ADD:
			if x.Conc != nil && y.Conc != nil {
				return concStr(*x.Conc + *y.Conc)
			}
			// mixed kinds: when the left part has a fixed length the concatenation determines both parts, so it is
			// modelled as an injective function of them
			if x.Conc != nil || x.Bytes != nil || x.IsHexOf || (x.Atom != nil && x.N > 0) {
				var flat []Term
				if ex.flattenStr(x, &flat) && ex.flattenStr(y, &flat) {
					t := ex.injectiveAtom("concat", flat)
					return VStr{Atom: &t}
				}
			}
		case token.LSS, token.GTR:
			if op == token.GTR {
				x, y = y, x
			}
			if x.Atom != nil && y.Atom != nil && x.HexNum && y.HexNum {
				return VBool{ex.hexNumLess(x, y)}
			}
			if x.Atom != nil && y.Atom != nil {
				return VBool{Lt(*x.Atom, *y.Atom)}
			}
			if x.Conc != nil && y.Conc != nil {
				return VBool{BoolC(*x.Conc < *y.Conc)}
			}
		}
	case VPtr:
		y := b.(VPtr)
		same := x.O == y.O && fmt.Sprint(x.Path) == fmt.Sprint(y.Path)
		if op == token.EQL {
			return VBool{BoolC(same)}
		}
		if op == token.NEQ {
			return VBool{BoolC(!same)}
		}
	case VSlice:
		// only comparison with nil is legal
		if _, ok := b.(VStr); ok {
			return ex.binop(op, b, a, opType, resType)
		}
		isNil := x.O == nil
		if op == token.EQL {
			return VBool{BoolC(isNil)}
		}
		if op == token.NEQ {
			return VBool{BoolC(!isNil)}
		}
	case VClos:
		isNil := x.Fn == nil
		if op == token.EQL {
			return VBool{BoolC(isNil)}
		}
		if op == token.NEQ {
			return VBool{BoolC(!isNil)}
		}
	}
	panic(unsupported{fmt.Sprintf("binop %s on %T", op, a)})
}

// flattenStr: Int terms determining a string value (kind tag first, so that different kinds never collide).
func (ex *Exec) flattenStr(x VStr, out *[]Term) bool {
	switch {
	case x.Atom != nil:
		tag := int64(-7)
		if x.HexNum {
			tag = -8 - int64(x.HexLead)
		}
		*out = append(*out, IntC(tag), *x.Atom)
	case x.IsHexOf:
		*out = append(*out, IntC(-6), IntC(int64(len(x.HexOf))))
		*out = append(*out, x.HexOf...)
	default:
		ts, ok := ex.byteTerms(x)
		if !ok {
			return false
		}
		*out = append(*out, IntC(-5), IntC(int64(len(ts))))
		*out = append(*out, ts...)
	}
	return true
}

func (ex *Exec) strEq(x, y VStr) Term {
	if x.Atom != nil && y.Atom != nil {
		if x.N > 0 && y.N > 0 && x.N != y.N {
			return BoolC(false)
		}
		if x.Hexed != y.Hexed {
			panic(unsupported{"equality between hex text and raw atom"})
		}
	}
	if x.IsHexOf && y.IsHexOf {
		if len(x.HexOf) != len(y.HexOf) {
			return BoolC(false)
		}
		r := BoolC(true)
		for i := range x.HexOf {
			r = And(r, Eq(x.HexOf[i], y.HexOf[i]))
		}
		return r
	}
	if x.Atom == nil && y.Atom == nil && (x.Conc == nil || y.Conc == nil) {
		return ex.bytesEq(x, y)
	}
	switch {
	case x.Conc != nil && y.Conc != nil:
		return BoolC(*x.Conc == *y.Conc)
	case x.Atom != nil && y.Atom != nil && x.HexNum && y.HexNum && x.HexLead != y.HexLead:
		// texts zero-padded to their own lengths: equal iff same length and same number
		vx, _ := ex.hexNumParts(x)
		vy, _ := ex.hexNumParts(y)
		return And(Eq(vx, vy), Eq(ex.hexNumLen(x), ex.hexNumLen(y)))
	case x.Atom != nil && y.Atom != nil:
		return Eq(*x.Atom, *y.Atom)
	case x.Atom != nil && y.Conc != nil:
		return Eq(*x.Atom, ex.atomOfConst(*y.Conc))
	case x.Conc != nil && y.Atom != nil:
		return Eq(ex.atomOfConst(*x.Conc), *y.Atom)
	}
	panic(unsupported{"string equality of mixed kinds"})
}

// concrete strings get negative ids; symbolic atoms are constrained >= 0.
func (ex *Exec) atomOfConst(s string) Term {
	id, ok := ex.constAtoms[s]
	if !ok {
		id = -int64(len(ex.constAtoms)) - 1
		ex.constAtoms[s] = id
	}
	return IntC(id)
}

func (ex *Exec) ifaceEq(x, y VIface) Term {
	if x.Typ == nil || y.Typ == nil {
		return BoolC(x.Typ == nil && y.Typ == nil)
	}
	if !types.Identical(x.Typ, y.Typ) {
		return BoolC(false)
	}
	if ox, ok := x.V.(VOpaque); ok {
		if oy, ok := y.V.(VOpaque); ok {
			return BoolC(ox.Data == oy.Data)
		}
	}
	panic(unsupported{"interface equality"})
}

// ---------------------------------------------------------------- maps

func (ex *Exec) keyEq(a, b Value) Term {
	switch x := a.(type) {
	case VInt:
		return Eq(x.T, b.(VInt).T)
	case VStr:
		return ex.strEq(x, b.(VStr))
	case VBool:
		return Eq(x.T, b.(VBool).T)
	}
	panic(unsupported{fmt.Sprintf("map key type %T", a)})
}

// find returns the index of key in m, forking on symbolic equality; -1 if absent.
func (ex *Exec) mapFind(m *MapObj, key Value) int {
	for i, k := range m.Keys {
		if ex.decide(ex.keyEq(k, key)) {
			return i
		}
	}
	return -1
}

func (ex *Exec) mapUpdate(m VMap, k, v Value) {
	if m.M == nil {
		panic(goPanic{"assignment to entry in nil map"})
	}
	ex.guardCheck(m.M)
	if i := ex.mapFind(m.M, k); i >= 0 {
		m.M.Vals[i] = v
		return
	}
	m.M.Keys = append(m.M.Keys, k)
	m.M.Vals = append(m.M.Vals, v)
}

func (ex *Exec) lookup(fr *frame, x *ssa.Lookup) Value {
	base := ex.val(fr, x.X)
	switch b := base.(type) {
	case VMap:
		et := x.X.Type().Underlying().(*types.Map).Elem()
		var res Value = ex.zero(et)
		ok := false
		if b.M != nil {
			ex.guardCheck(b.M)
			if i := ex.mapFind(b.M, ex.val(fr, x.Index)); i >= 0 {
				res, ok = b.M.Vals[i], true
			}
		}
		if x.CommaOk {
			return VTuple{res, VBool{BoolC(ok)}}
		}
		return res
	case VStr:
		if b.Bytes != nil {
			i := ex.concretize(ex.val(fr, x.Index).(VInt).T, 0, len(b.Bytes)-1)
			if i < 0 {
				panic(goPanic{"string index out of range"})
			}
			return VInt{b.Bytes[i]}
		}
		if b.Conc != nil {
			i := ex.concretize(ex.val(fr, x.Index).(VInt).T, 0, len(*b.Conc)-1)
			if i < 0 {
				panic(goPanic{"string index out of range"})
			}
			return VInt{IntC(int64((*b.Conc)[i]))}
		}
	}
	panic(unsupported{"lookup base"})
}

type rangeState struct {
	m     *MapObj
	order []int
	keys  []Value // the keys in iteration order, fixed when the loop starts (entries deleted meanwhile are skipped)
	pos   int
}

// rangeInit: map iteration takes an ARBITRARY order: fork over permutations.
func (ex *Exec) rangeInit(v Value) Value {
	m, ok := v.(VMap)
	if !ok {
		panic(unsupported{"range over non-map"})
	}
	rs := &rangeState{}
	if m.M != nil {
		ex.guardCheck(m.M)
		rs.m = m.M
		n := len(m.M.Keys)
		remaining := make([]int, n)
		for i := range remaining {
			remaining[i] = i
		}
		for len(remaining) > 0 {
			conds := make([]Term, len(remaining))
			for i := range conds {
				conds[i] = BoolC(true)
			}
			c := 0
			if len(remaining) > 1 {
				c = ex.chooseFree(len(remaining))
			}
			rs.order = append(rs.order, remaining[c])
			rs.keys = append(rs.keys, m.M.Keys[remaining[c]])
			remaining = append(remaining[:c:c], remaining[c+1:]...)
		}
	}
	return VOpaque{Kind: "range", Data: rs}
}

// chooseFree forks n ways without adding constraints.
func (ex *Exec) chooseFree(n int) int {
	if ex.inInit > 0 {
		panic(unsupported{"free choice inside a package initialiser"})
	}
	k := ex.forkIdx
	ex.forkIdx++
	if k < len(ex.prefix) {
		return ex.prefix[k].alts[ex.prefix[k].pos]
	}
	alts := make([]int, n)
	for i := range alts {
		alts[i] = i
	}
	ex.prefix = append(ex.prefix, choice{alts: alts})
	return 0
}

// pick is a named free choice (recorded in models so that the native replay takes the same one).
func (ex *Exec) pick(name string, n int) int {
	if p, ok := ex.cfg.PinPicks[name]; ok {
		ex.picks[name] = p
		return p
	}
	if c, ok := ex.picks[name]; ok {
		return c // a name denotes one choice per path
	}
	c := ex.chooseFree(n)
	ex.picks[name] = c
	return c
}

func (ex *Exec) rangeNext(it VOpaque, x *ssa.Next) Value {
	rs := it.Data.(*rangeState)
	tt := x.Type().(*types.Tuple)
	if rs.pos >= len(rs.order) {
		var k, v Value
		if tt.At(1).Type() != nil && !isInvalid(tt.At(1).Type()) {
			k = ex.zero(tt.At(1).Type())
		}
		if !isInvalid(tt.At(2).Type()) {
			v = ex.zero(tt.At(2).Type())
		}
		return VTuple{VBool{BoolC(false)}, k, v}
	}
	for rs.pos < len(rs.keys) {
		key := rs.keys[rs.pos]
		rs.pos++
		// Go semantics: an entry removed during the iteration is not produced; the value is the current one
		if i := ex.mapFind(rs.m, key); i >= 0 {
			return VTuple{VBool{BoolC(true)}, rs.m.Keys[i], rs.m.Vals[i]}
		}
	}
	var k, v Value
	if tt.At(1).Type() != nil && !isInvalid(tt.At(1).Type()) {
		k = ex.zero(tt.At(1).Type())
	}
	if !isInvalid(tt.At(2).Type()) {
		v = ex.zero(tt.At(2).Type())
	}
	return VTuple{VBool{BoolC(false)}, k, v}
}

func isInvalid(t types.Type) bool {
	b, ok := t.(*types.Basic)
	return ok && b.Kind() == types.Invalid
}

// ---------------------------------------------------------------- builtins

func (ex *Exec) builtin(fr *frame, b *ssa.Builtin, cc *ssa.CallCommon, args []Value) Value {
	switch b.Name() {
	case "ssa:wrapnilchk":
		if p, ok := args[0].(VPtr); ok && p.O == nil {
			panic(goPanic{"value method called using nil pointer"})
		}
		return args[0]
	case "delete":
		m, ok := args[0].(VMap)
		if !ok {
			panic(unsupported{"delete on a non-map"})
		}
		if m.M != nil {
			ex.guardCheck(m.M)
			if i := ex.mapFind(m.M, args[1]); i >= 0 {
				m.M.Keys = append(append([]Value{}, m.M.Keys[:i]...), m.M.Keys[i+1:]...)
				m.M.Vals = append(append([]Value{}, m.M.Vals[:i]...), m.M.Vals[i+1:]...)
			}
		}
		return nil
	case "len":
		switch x := args[0].(type) {
		case VSlice:
			return VInt{IntC(int64(x.Len))}
		case VStr:
			if x.Conc != nil {
				return VInt{IntC(int64(len(*x.Conc)))}
			}
			if x.Bytes != nil {
				return VInt{IntC(int64(len(x.Bytes)))}
			}
			if x.Atom != nil && x.HexNum {
				return VInt{ex.hexNumLen(x)}
			}
			if x.Atom != nil && x.N > 0 {
				return VInt{IntC(int64(x.N))}
			}
			if x.IsHexOf {
				return VInt{IntC(int64(2 * len(x.HexOf)))}
			}
		case VMap:
			if x.M == nil {
				return VInt{IntC(0)}
			}
			ex.guardCheck(x.M)
			return VInt{IntC(int64(len(x.M.Keys)))}
		}
	case "cap":
		if x, ok := args[0].(VSlice); ok {
			return VInt{IntC(int64(x.Cap))}
		}
	case "append":
		s := args[0].(VSlice)
		if sv, ok := args[1].(VStr); ok {
			ts, ok2 := ex.byteTerms(sv)
			if !ok2 {
				panic(unsupported{"append of an atom byte string"})
			}
			args[1] = termsToSlice(ex, append([]Term{}, ts...))
		}
		add := args[1].(VSlice)
		if add.Len == 0 {
			return s
		}
		var addE []Value
		arr := add.O.V.(VArr)
		addE = append(addE, arr.E[add.Off:add.Off+add.Len]...)
		if s.O != nil && s.Len+add.Len <= s.Cap {
			// in place, aliasing the backing array like Go does
			cur := s.O.V.(VArr)
			e := make([]Value, len(cur.E))
			copy(e, cur.E)
			copy(e[s.Off+s.Len:], addE)
			s.O.V = VArr{e}
			return VSlice{O: s.O, Off: s.Off, Len: s.Len + add.Len, Cap: s.Cap}
		}
		var e []Value
		if s.O != nil {
			e = append(e, s.O.V.(VArr).E[s.Off:s.Off+s.Len]...)
		}
		e = append(e, addE...)
		return VSlice{O: ex.newObj(VArr{e}), Len: len(e), Cap: len(e)}
	case "copy":
		dst := args[0].(VSlice)
		if sv, ok := args[1].(VStr); ok {
			ts, ok2 := ex.byteTerms(sv)
			if !ok2 {
				panic(unsupported{"copy from an atom byte string"})
			}
			args[1] = termsToSlice(ex, append([]Term{}, ts...))
		}
		src := args[1].(VSlice)
		n := dst.Len
		if src.Len < n {
			n = src.Len
		}
		if n > 0 {
			se := src.O.V.(VArr).E
			tmp := make([]Value, n)
			copy(tmp, se[src.Off:src.Off+n])
			cur := dst.O.V.(VArr)
			e := make([]Value, len(cur.E))
			copy(e, cur.E)
			copy(e[dst.Off:], tmp)
			dst.O.V = VArr{e}
		}
		return VInt{IntC(int64(n))}
	}
	panic(unsupported{"builtin " + b.Name()})
}

func pow16(n int) *big.Int { return new(big.Int).Lsh(big.NewInt(1), uint(4*n)) }

// hexNumParts: numeric value and spelling bit of a hex numeral atom (id = 2*value + bit).
func (ex *Exec) hexNumParts(x VStr) (Term, Term) { return ex.divModPos(*x.Atom, big.NewInt(2)) }

// hexNumLen: length of a hex numeral atom's text: the value zero-padded to 64 digits (longer from 16^64 on, the
// domain ends below 16^68), two more zeros in front in the alternative spelling.
func (ex *Exec) hexNumLen(x VStr) Term {
	v, bit := ex.hexNumParts(x)
	l := Add(IntC(int64(64+x.HexLead)), Mul(bit, IntC(2)))
	for k := 64; k < 68; k++ {
		l = Add(l, Ite(Ge(v, IntB(pow16(k))), IntC(1), IntC(0)))
	}
	return ex.nameT(l)
}

// hexNumLess: byte-wise (lexicographic) order of two hex numeral texts. Each text is its value zero-padded to its
// own length, so equal lengths order like the numbers; otherwise the shorter text is compared with the same
// number of leading digits of the longer one, and a proper prefix is the smaller string.
func (ex *Exec) hexNumLess(x, y VStr) Term {
	vx, _ := ex.hexNumParts(x)
	vy, _ := ex.hexNumParts(y)
	lx := ex.concretize(ex.hexNumLen(x), 64, 72)
	ly := ex.concretize(ex.hexNumLen(y), 64, 72)
	switch {
	case lx < 0 || ly < 0:
		panic(unsupported{"hex numeral length outside 64..72"})
	case lx == ly:
		return Lt(vx, vy)
	case lx < ly:
		q, _ := ex.divModPos(vy, pow16(ly-lx))
		return Le(vx, q)
	default:
		q, _ := ex.divModPos(vx, pow16(lx-ly))
		return Lt(q, vy)
	}
}

// ---- lock discipline (the sequential proof obligation behind "goroutine safe"): a harness declares that everything
// reachable from a root is guarded by a mutex (ndGuardedBy); every map read or write on such state must then happen
// while that mutex is held. With every operation's accesses inside one critical section of one mutex, concurrent
// calls are atomic with respect to each other and there is no data race on that state.

type lockGuard struct {
	root  VPtr
	muKey string
}

const guardLabel = "shared-state-accessed-only-with-the-lock-held"

func muKey(p VPtr) string {
	if p.O == nil {
		panic(goPanic{"nil mutex"})
	}
	return fmt.Sprintf("%d/%v", p.O.ID, p.Path)
}

func (ex *Exec) guardCheck(mo *MapObj) {
	for _, g := range ex.guards {
		if ex.held[g.muKey] > 0 || ex.held[g.muKey+"/r"] > 0 {
			if reachesMap(g.root.load(), mo, map[interface{}]bool{}) {
				ex.Discharged[guardLabel]++
			}
			continue
		}
		if reachesMap(g.root.load(), mo, map[interface{}]bool{}) {
			if ex.queryAll(BoolC(true)) == "sat" {
				ex.recordViolation(guardLabel, "race", "", "")
			}
		}
	}
}

func reachesMap(v Value, mo *MapObj, seen map[interface{}]bool) bool {
	switch x := v.(type) {
	case VMap:
		if x.M == nil || seen[x.M] {
			return false
		}
		if x.M == mo {
			return true
		}
		seen[x.M] = true
		for i := range x.M.Keys {
			if reachesMap(x.M.Keys[i], mo, seen) || reachesMap(x.M.Vals[i], mo, seen) {
				return true
			}
		}
	case VStruct:
		for _, f := range x.F {
			if reachesMap(f, mo, seen) {
				return true
			}
		}
	case VArr:
		for _, e := range x.E {
			if reachesMap(e, mo, seen) {
				return true
			}
		}
	case VPtr:
		if x.O == nil || seen[x.O] {
			return false
		}
		seen[x.O] = true
		return reachesMap(x.O.V, mo, seen)
	case VSlice:
		if x.O == nil || seen[x.O] {
			return false
		}
		seen[x.O] = true
		return reachesMap(x.O.V, mo, seen)
	case VIface:
		if x.V != nil {
			return reachesMap(x.V, mo, seen)
		}
	case VTuple:
		for _, e := range x {
			if reachesMap(e, mo, seen) {
				return true
			}
		}
	}
	return false
}
