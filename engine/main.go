package main

import (
	"fmt"
	"os"
)

func main() {
	if len(os.Args) < 2 {
		fmt.Fprintln(os.Stderr, "usage: verif check <PROP> [--tier quick|thorough] [--only name] | verif run <pkg> <harness> | verif replay <PROP> <path>")
		os.Exit(2)
	}
	switch os.Args[1] {
	case "check":
		os.Exit(cmdCheck(os.Args[2:]))
	case "run":
		os.Exit(cmdRun(os.Args[2:]))
	case "replay":
		os.Exit(cmdReplay(os.Args[2:]))
	default:
		fmt.Fprintln(os.Stderr, "unknown command", os.Args[1])
		os.Exit(2)
	}
}
