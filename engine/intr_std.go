package main

import (
	"encoding/hex"
	"fmt"
	"go/types"
	"math/big"
	"strings"

	"golang.org/x/tools/go/ssa"
)

// Unix nanoseconds of time.Time{} (January 1, year 1, 00:00:00 UTC)
var zeroTimeNanos = new(big.Int).Mul(big.NewInt(-62135596800), big.NewInt(1000000000))

func (ex *Exec) uf(name string, argSorts string, res string) {
	if !ex.declared[name] {
		ex.declared[name] = true
		ex.declText[name] = fmt.Sprintf("(declare-fun %s (%s) %s)", name, argSorts, res)
	}
}

// ufApp builds an application of an uninterpreted function to Int terms.
func (ex *Exec) ufApp(name string, boolRes bool, args ...Term) Term {
	sorts := strings.TrimSpace(strings.Repeat("Int ", len(args)))
	res := "Int"
	if boolRes {
		res = "Bool"
	}
	ex.uf(name, sorts, res)
	parts := []Term{{V: []int{varID(name)}}}
	parts = append(parts, args...)
	return Term{S: app(name, args...), Bool: boolRes, V: unionV(parts...), NL: anyNL(args...)}
}

// fmtAtom: the textual rendering of a value is an uninterpreted function of the value.
func (ex *Exec) fmtAtom(kind string, v Value) Value {
	t := v.(VInt).T
	if t.Const && kind == "itoa" {
		return concStr(t.I.String())
	}
	a := ex.ufApp("fmt_"+kind, false, t)
	return VStr{Atom: &a}
}

func (ex *Exec) freshAtom(prefix string) Value {
	a := ex.aux(prefix)
	return VStr{Atom: &a}
}

func sliceElems(v Value) []Value {
	s, ok := v.(VSlice)
	if !ok {
		panic(unsupported{fmt.Sprintf("slice expected, got %T", v)})
	}
	if s.O == nil {
		return nil
	}
	return s.O.V.(VArr).E[s.Off : s.Off+s.Len]
}

func (ex *Exec) mkSlice(e []Value) VSlice {
	if e == nil {
		return VSlice{}
	}
	return VSlice{O: ex.newObj(VArr{e}), Len: len(e), Cap: len(e)}
}

// byteTerms returns the bytes of a byte-level []byte / string value, or nil,false for atoms.
func (ex *Exec) byteTerms(v Value) ([]Term, bool) {
	switch x := v.(type) {
	case VStr:
		if x.Conc != nil {
			out := make([]Term, len(*x.Conc))
			for i := range out {
				out[i] = IntC(int64((*x.Conc)[i]))
			}
			return out, true
		}
		if x.Bytes != nil {
			return x.Bytes, true
		}
		if x.IsHexOf {
			out := make([]Term, 0, 2*len(x.HexOf))
			digit := func(n Term) Term { return Ite(Lt(n, IntC(10)), Add(n, IntC('0')), Add(n, IntC('a'-10))) }
			for _, b := range x.HexOf {
				q, r := ex.divModPos(b, big.NewInt(16))
				out = append(out, ex.nameT(digit(q)), ex.nameT(digit(r)))
			}
			return out, true
		}
		return nil, false
	case VSlice:
		es := sliceElems(x)
		out := make([]Term, len(es))
		for i, e := range es {
			out[i] = e.(VInt).T
		}
		return out, true
	}
	return nil, false
}

// structEq: deep structural equality of two values of the same type.
func (ex *Exec) structEq(a, b Value) Term {
	switch x := a.(type) {
	case VInt:
		return Eq(x.T, b.(VInt).T)
	case VBool:
		return Eq(x.T, b.(VBool).T)
	case VStr:
		if y, ok := b.(VStr); ok {
			return ex.strEq(x, y)
		}
		return ex.bytesEq(a, b)
	case VStruct:
		y := b.(VStruct)
		r := BoolC(true)
		for i := range x.F {
			r = And(r, ex.structEq(x.F[i], y.F[i]))
		}
		return r
	case VArr:
		y := b.(VArr)
		r := BoolC(true)
		for i := range x.E {
			r = And(r, ex.structEq(x.E[i], y.E[i]))
		}
		return r
	case VSlice:
		if y, ok := b.(VStr); ok {
			return ex.bytesEq(x, y)
		}
		y := b.(VSlice)
		if x.Len != y.Len { // nil and empty marshal identically
			return BoolC(false)
		}
		r := BoolC(true)
		xe, ye := sliceElems(x), sliceElems(y)
		for i := range xe {
			r = And(r, ex.structEq(xe[i], ye[i]))
		}
		return r
	case VPtr:
		y := b.(VPtr)
		if x.O == nil || y.O == nil {
			return BoolC(x.O == nil && y.O == nil)
		}
		return ex.structEq(x.load(), y.load())
	}
	panic(unsupported{fmt.Sprintf("structural equality on %T", a)})
}

func (ex *Exec) bytesEq(a, b Value) Term {
	if ma, ok := a.(VOpaque); ok && ma.Kind == "marshaled" {
		return ex.structEq(ma.Data.(Value), b.(VOpaque).Data.(Value))
	}
	sa, oka := a.(VStr)
	sb, okb := b.(VStr)
	if oka && okb && (sa.Atom != nil || sb.Atom != nil) {
		return ex.strEq(sa, sb)
	}
	if oka && sa.Atom != nil || okb && sb.Atom != nil {
		// atom against byte-level: nil/empty slice never equals a fixed-width atom
		if vs, ok := b.(VSlice); ok && vs.Len == 0 && sa.N > 0 {
			return BoolC(false)
		}
		if vs, ok := a.(VSlice); ok && vs.Len == 0 && sb.N > 0 {
			return BoolC(false)
		}
		panic(unsupported{"bytes equality between atom and byte-level value"})
	}
	ta, _ := ex.byteTerms(a)
	tb, _ := ex.byteTerms(b)
	if len(ta) != len(tb) {
		return BoolC(false)
	}
	r := BoolC(true)
	for i := range ta {
		r = And(r, Eq(ta[i], tb[i]))
	}
	return r
}

func isHexDigit(b Term) Term {
	in := func(lo, hi int64) Term { return And(Ge(b, IntC(lo)), Le(b, IntC(hi))) }
	return Or(in('0', '9'), Or(in('a', 'f'), in('A', 'F')))
}

func hexDigitVal(b Term) Term {
	return Ite(Le(b, IntC('9')), Sub(b, IntC('0')), Ite(Le(b, IntC('F')), Sub(b, IntC('A'-10)), Sub(b, IntC('a'-10))))
}

func (ex *Exec) mkErr(msg string, wrapped *ErrVal) Value {
	ex.objSeq++
	e := &ErrVal{ID: fmt.Sprintf("err#%d", ex.objSeq), Msg: msg, Wrapped: wrapped}
	return VIface{Typ: errMarkerType, V: VOpaque{Kind: "error", Data: e}}
}

func errOf(v Value) *ErrVal {
	i, ok := v.(VIface)
	if !ok {
		if o, ok2 := v.(VOpaque); ok2 && o.Kind == "error" {
			return o.Data.(*ErrVal)
		}
		if p, ok2 := v.(VPtr); ok2 {
			if p.O == nil {
				return nil
			}
			return errOf(p.load())
		}
		panic(unsupported{fmt.Sprintf("error value expected, got %T", v)})
	}
	if i.Typ == nil {
		return nil
	}
	return errOf(i.V)
}

func errIface(e *ErrVal) Value {
	if e == nil {
		return VIface{}
	}
	return VIface{Typ: errMarkerType, V: VOpaque{Kind: "error", Data: e}}
}

func nilErr() Value { return VIface{} }

func (ex *Exec) wrapErr(inner Value, msg string) Value {
	e := errOf(inner)
	if e == nil {
		return nilErr()
	}
	ex.objSeq++
	return errIface(&ErrVal{ID: fmt.Sprintf("err#%d", ex.objSeq), Msg: msg + ": " + e.Msg, Wrapped: e})
}

func init() {
	extraIntrinsics = append(extraIntrinsics, func(m map[string]intrinsic) {
		id := func(ex *Exec, fr *frame, cc *ssa.CallCommon, a []Value) Value { return a[0] }
		noop := func(ex *Exec, fr *frame, cc *ssa.CallCommon, a []Value) Value { return nil }
		// ---------------- time (Int nanoseconds since the Unix epoch)
		tcmp := func(f func(a, b Term) Term) intrinsic {
			return func(ex *Exec, fr *frame, cc *ssa.CallCommon, a []Value) Value { return VBool{f(ti(a[0]), ti(a[1]))} }
		}
		m["(time.Time).Before"] = tcmp(Lt)
		m["(time.Time).After"] = tcmp(Gt)
		m["(time.Time).Equal"] = tcmp(Eq)
		m["(time.Time).Compare"] = func(ex *Exec, fr *frame, cc *ssa.CallCommon, a []Value) Value {
			x, y := ti(a[0]), ti(a[1])
			return VInt{Ite(Lt(x, y), IntC(-1), Ite(Gt(x, y), IntC(1), IntC(0)))}
		}
		m["(time.Time).IsZero"] = func(ex *Exec, fr *frame, cc *ssa.CallCommon, a []Value) Value {
			return VBool{Eq(ti(a[0]), IntB(zeroTimeNanos))}
		}
		m["(time.Time).Add"] = func(ex *Exec, fr *frame, cc *ssa.CallCommon, a []Value) Value { return VInt{Add(ti(a[0]), ti(a[1]))} }
		m["(time.Time).Sub"] = func(ex *Exec, fr *frame, cc *ssa.CallCommon, a []Value) Value {
			d := ex.nameT(Sub(ti(a[0]), ti(a[1])))
			hi := new(big.Int).Sub(pow2(63), big.NewInt(1))
			lo := new(big.Int).Neg(pow2(63))
			return VInt{Ite(Gt(d, IntB(hi)), IntB(hi), Ite(Lt(d, IntB(lo)), IntB(lo), d))} // saturating, as in package time
		}
		m["(time.Time).Unix"] = func(ex *Exec, fr *frame, cc *ssa.CallCommon, a []Value) Value {
			q, _ := ex.divModPos(ti(a[0]), big.NewInt(1000000000))
			return VInt{q}
		}
		m["(time.Time).UnixMilli"] = func(ex *Exec, fr *frame, cc *ssa.CallCommon, a []Value) Value {
			q, _ := ex.divModPos(ti(a[0]), big.NewInt(1000000))
			return VInt{q}
		}
		m["(time.Time).UnixNano"] = id
		m["(time.Time).UTC"] = id
		m["(time.Time).Local"] = id
		m["(time.Time).Round"] = func(ex *Exec, fr *frame, cc *ssa.CallCommon, a []Value) Value {
			if d := ti(a[1]); d.Const && d.I.Sign() <= 0 {
				return a[0]
			}
			panic(unsupported{"time.Round"})
		}
		m["time.Unix"] = func(ex *Exec, fr *frame, cc *ssa.CallCommon, a []Value) Value {
			return VInt{Add(Mul(ti(a[0]), IntC(1000000000)), ti(a[1]))}
		}
		m["time.UnixMilli"] = func(ex *Exec, fr *frame, cc *ssa.CallCommon, a []Value) Value {
			return VInt{Mul(ti(a[0]), IntC(1000000))}
		}
		m["time.Now"] = func(ex *Exec, fr *frame, cc *ssa.CallCommon, a []Value) Value {
			// wall clock: a fresh unconstrained instant at every call
			t := ex.aux("wallclock")
			ex.assume(And(Ge(t, IntC(0)), Le(t, IntB(pow2(62)))))
			return VInt{t}
		}
		m["time.Since"] = func(ex *Exec, fr *frame, cc *ssa.CallCommon, a []Value) Value {
			t := ex.aux("wallclock")
			ex.assume(And(Ge(t, IntC(0)), Le(t, IntB(pow2(62)))))
			return VInt{t}
		}
		m["(time.Duration).Milliseconds"] = func(ex *Exec, fr *frame, cc *ssa.CallCommon, a []Value) Value {
			return VInt{ex.truncDivX(ti(a[0]), IntC(1000000))}
		}
		m["(time.Duration).Truncate"] = func(ex *Exec, fr *frame, cc *ssa.CallCommon, a []Value) Value {
			d, mm := ti(a[0]), ti(a[1])
			if !mm.Const {
				panic(unsupported{"Duration.Truncate by symbolic"})
			}
			if mm.I.Sign() <= 0 {
				return a[0]
			}
			return VInt{Sub(d, ex.truncRemX(ex.nameT(d), mm))}
		}
		m["(time.Duration).Round"] = func(ex *Exec, fr *frame, cc *ssa.CallCommon, a []Value) Value {
			d, mm := ex.nameT(ti(a[0])), ti(a[1])
			if !mm.Const {
				panic(unsupported{"Duration.Round by symbolic"})
			}
			if mm.I.Sign() <= 0 {
				return a[0]
			}
			// rounds half away from zero to a multiple of m (saturation at the int64 ends ignored: |d| < 2^62 assumed)
			r := ex.nameT(ex.truncRemX(d, mm))
			ar := ex.nameT(Abs(r))
			up := Ge(Add(ar, ar), mm)
			pos := Ite(up, Add(Sub(d, r), mm), Sub(d, r))
			neg := Ite(up, Sub(Sub(d, r), mm), Sub(d, r))
			return VInt{ex.nameT(Ite(Lt(d, IntC(0)), neg, pos))}
		}
		// (time.Time).Truncate(d): the time rounded down to a multiple of d since the zero time (times are nanoseconds
		// since the Unix epoch here; the epoch is a multiple of d for every d that divides a day)
		m["(time.Time).Truncate"] = func(ex *Exec, fr *frame, cc *ssa.CallCommon, a []Value) Value {
			t, d := ti(a[0]), ti(a[1])
			if !d.Const {
				panic(unsupported{"Time.Truncate by a symbolic duration"})
			}
			if d.I.Sign() <= 0 {
				return a[0]
			}
			day := new(big.Int).Mul(big.NewInt(86400), big.NewInt(1000000000))
			if new(big.Int).Mod(day, d.I).Sign() != 0 {
				panic(unsupported{"Time.Truncate by a duration that does not divide a day"})
			}
			_, r := ex.divModPos(ex.nameT(t), d.I)
			return VInt{ex.nameT(Sub(t, r))}
		}
		m["(time.Duration).Seconds"] = func(ex *Exec, fr *frame, cc *ssa.CallCommon, a []Value) Value {
			panic(unsupported{"Duration.Seconds (float)"})
		}
		m["(time.Duration).String"] = func(ex *Exec, fr *frame, cc *ssa.CallCommon, a []Value) Value { return ex.fmtAtom("dur", a[0]) }
		m["(time.Time).String"] = func(ex *Exec, fr *frame, cc *ssa.CallCommon, a []Value) Value { return ex.fmtAtom("time", a[0]) }

		// ---------------- errors
		m["errors.New"] = func(ex *Exec, fr *frame, cc *ssa.CallCommon, a []Value) Value { return ex.mkErr(ex.describe(a[0]), nil) }
		m["fmt.Errorf"] = func(ex *Exec, fr *frame, cc *ssa.CallCommon, a []Value) Value {
			// %w keeps the chain: wrap the last error argument if any
			var inner *ErrVal
			for _, v := range sliceElems(a[1]) {
				if i, ok := v.(VIface); ok && i.Typ == errMarkerType {
					inner = errOf(i)
				}
			}
			ex.objSeq++
			return errIface(&ErrVal{ID: fmt.Sprintf("err#%d", ex.objSeq), Msg: ex.describe(a[0]), Wrapped: inner})
		}
		isFn := func(ex *Exec, fr *frame, cc *ssa.CallCommon, a []Value) Value {
			e, t := errOf(a[0]), errOf(a[1])
			if t == nil {
				return VBool{BoolC(e == nil)}
			}
			for ; e != nil; e = e.Wrapped {
				if e.ID == t.ID {
					return VBool{BoolC(true)}
				}
			}
			return VBool{BoolC(false)}
		}
		m["errors.Is"] = isFn
		m["cosmossdk.io/errors.IsOf"] = func(ex *Exec, fr *frame, cc *ssa.CallCommon, a []Value) Value {
			for _, t := range sliceElems(a[1]) {
				if isFn(ex, fr, cc, []Value{a[0], t}).(VBool).T.B {
					return VBool{BoolC(true)}
				}
			}
			return VBool{BoolC(false)}
		}
		m["cosmossdk.io/errors.Register"] = func(ex *Exec, fr *frame, cc *ssa.CallCommon, a []Value) Value {
			name := fmt.Sprintf("registered:%s/%s", ex.describe(a[0]), ti(a[1]).S)
			e := ex.sentinel(name)
			e.Msg = ex.describe(a[2])
			return VPtr{O: ex.newObj(VOpaque{Kind: "error", Data: e})}
		}
		m["cosmossdk.io/errors.RegisterWithGRPCCode"] = m["cosmossdk.io/errors.Register"]
		wrap := func(ex *Exec, fr *frame, cc *ssa.CallCommon, a []Value) Value {
			return ex.wrapErr(a[0], ex.describe(a[1]))
		}
		m["cosmossdk.io/errors.Wrap"] = wrap
		m["cosmossdk.io/errors.Wrapf"] = wrap
		m["github.com/pkg/errors.Wrap"] = wrap
		m["github.com/pkg/errors.Wrapf"] = wrap
		m["(*cosmossdk.io/errors.Error).Wrap"] = wrap
		m["(*cosmossdk.io/errors.Error).Wrapf"] = wrap
		m["(cosmossdk.io/errors.Error).Wrap"] = wrap
		m["(cosmossdk.io/errors.Error).Wrapf"] = wrap
		errStr := func(ex *Exec, fr *frame, cc *ssa.CallCommon, a []Value) Value {
			e := errOf(a[0])
			if e == nil {
				panic(goPanic{"nil error .Error()"})
			}
			return concStr(e.Msg)
		}
		m["(*cosmossdk.io/errors.Error).Error"] = errStr
		m["(cosmossdk.io/errors.Error).Error"] = errStr
		m["invoke:error.Error"] = errStr
		m["(*cosmossdk.io/errors.Error).Is"] = isFn
		m["google.golang.org/grpc/status.Error"] = func(ex *Exec, fr *frame, cc *ssa.CallCommon, a []Value) Value {
			return ex.mkErr("grpc status: "+ex.describe(a[1]), nil)
		}
		m["google.golang.org/grpc/status.Errorf"] = m["google.golang.org/grpc/status.Error"]

		// ---------------- strings / bytes / hex / fmt
		m["bytes.Equal"] = func(ex *Exec, fr *frame, cc *ssa.CallCommon, a []Value) Value { return VBool{ex.bytesEq(a[0], a[1])} }
		m["bytes.Compare"] = func(ex *Exec, fr *frame, cc *ssa.CallCommon, a []Value) Value {
			sa, oka := a[0].(VStr)
			sb, okb := a[1].(VStr)
			if oka && okb && sa.Atom != nil && sb.Atom != nil {
				x, y := *sa.Atom, *sb.Atom
				return VInt{Ite(Lt(x, y), IntC(-1), Ite(Gt(x, y), IntC(1), IntC(0)))}
			}
			lt := ex.nameT(ex.lexLess(a[0], a[1]))
			gt := ex.nameT(ex.lexLess(a[1], a[0]))
			return VInt{Ite(lt, IntC(-1), Ite(gt, IntC(1), IntC(0)))}
		}
		m["bytes.HasPrefix"] = func(ex *Exec, fr *frame, cc *ssa.CallCommon, a []Value) Value {
			x, ok1 := ex.byteTerms(a[0])
			y, ok2 := ex.byteTerms(a[1])
			if !ok1 || !ok2 {
				panic(unsupported{"bytes.HasPrefix on atoms"})
			}
			if len(y) > len(x) {
				return VBool{BoolC(false)}
			}
			r := BoolC(true)
			for i := range y {
				r = And(r, Eq(x[i], y[i]))
			}
			return VBool{r}
		}
		m["strings.HasPrefix"] = m["bytes.HasPrefix"]
		concBin := func(name string, f func(a, b string) Value) {
			m[name] = func(ex *Exec, fr *frame, cc *ssa.CallCommon, a []Value) Value {
				x, y := a[0].(VStr), a[1].(VStr)
				if x.Conc == nil || y.Conc == nil {
					panic(unsupported{name + " on symbolic strings"})
				}
				return f(*x.Conc, *y.Conc)
			}
		}
		concBin("strings.Contains", func(a, b string) Value { return VBool{BoolC(strings.Contains(a, b))} })
		concBin("strings.HasSuffix", func(a, b string) Value { return VBool{BoolC(strings.HasSuffix(a, b))} })
		concBin("strings.Trim", func(a, b string) Value { return concStr(strings.Trim(a, b)) })
		concBin("strings.TrimSuffix", func(a, b string) Value { return concStr(strings.TrimSuffix(a, b)) })
		// strings.TrimSpace on byte-level ASCII strings: forks on the number of leading / trailing white-space bytes
		m["strings.TrimSpace"] = func(ex *Exec, fr *frame, cc *ssa.CallCommon, a []Value) Value {
			s := a[0].(VStr)
			if s.Conc != nil {
				return concStr(strings.TrimSpace(*s.Conc))
			}
			if s.Bytes == nil {
				panic(unsupported{"strings.TrimSpace on an atom"})
			}
			isWS := func(b Term) Term { return Or(And(Ge(b, IntC(9)), Le(b, IntC(13))), Eq(b, IntC(32))) }
			bs := s.Bytes
			lo, hi := 0, len(bs)
			for lo < hi && ex.decide(isWS(bs[lo])) {
				lo++
			}
			for hi > lo && ex.decide(isWS(bs[hi-1])) {
				hi--
			}
			if lo == hi {
				return concStr("")
			}
			return VStr{Bytes: append([]Term{}, bs[lo:hi]...)}
		}
		m["strings.ToLower"] = func(ex *Exec, fr *frame, cc *ssa.CallCommon, a []Value) Value {
			s := a[0].(VStr)
			if s.Conc != nil {
				return concStr(strings.ToLower(*s.Conc))
			}
			if s.Bytes != nil {
				out := make([]Term, len(s.Bytes))
				for i, b := range s.Bytes {
					out[i] = ex.nameT(Ite(And(Ge(b, IntC('A')), Le(b, IntC('Z'))), Add(b, IntC(32)), b))
				}
				return VStr{Bytes: out}
			}
			t := ex.ufApp("str_tolower", false, *s.Atom)
			return VStr{Atom: &t, N: s.N}
		}
		m["strings.EqualFold"] = func(ex *Exec, fr *frame, cc *ssa.CallCommon, a []Value) Value {
			lo := m["strings.ToLower"]
			x := lo(ex, fr, cc, []Value{a[0]}).(VStr)
			y := lo(ex, fr, cc, []Value{a[1]}).(VStr)
			return VBool{ex.strEq(x, y)}
		}
		// bytes.EqualFold on byte-level values: exact for ASCII contents (simple case folding of letters); contents with
		// bytes >= 0x80 (multi-byte / invalid UTF-8 folding) are not modelled
		m["bytes.EqualFold"] = func(ex *Exec, fr *frame, cc *ssa.CallCommon, a []Value) Value {
			x, ok1 := ex.byteTerms(a[0])
			y, ok2 := ex.byteTerms(a[1])
			if !ok1 || !ok2 {
				panic(unsupported{"bytes.EqualFold on identity-only values"})
			}
			ascii := BoolC(true)
			for _, b := range append(append([]Term{}, x...), y...) {
				ascii = And(ascii, Lt(b, IntC(128)))
			}
			if !ex.decide(ascii) {
				panic(unsupported{"bytes.EqualFold on non-ASCII bytes"})
			}
			if len(x) != len(y) {
				return VBool{BoolC(false)}
			}
			fold := func(b Term) Term {
				return Ite(And(Ge(b, IntC('A')), Le(b, IntC('Z'))), Add(b, IntC(32)), b)
			}
			eq := BoolC(true)
			for i := range x {
				eq = And(eq, Eq(fold(x[i]), fold(y[i])))
			}
			return VBool{ex.nameT(eq)}
		}
		// strings.Join: exact on constant parts; otherwise a function of the parts that is treated as injective (joins of
		// different lists that happen to spell the same text, such as ["a,b"] and ["a","b"], are outside the model)
		m["strings.Join"] = func(ex *Exec, fr *frame, cc *ssa.CallCommon, a []Value) Value {
			sl, ok := a[0].(VSlice)
			if !ok {
				panic(unsupported{"strings.Join of a non-slice"})
			}
			parts := sliceElems(sl)
			sep := cstr(a[1])
			allc := true
			var conc []string
			for _, p := range parts {
				ps, ok := p.(VStr)
				if !ok || ps.Conc == nil {
					allc = false
					break
				}
				conc = append(conc, *ps.Conc)
			}
			if allc {
				return concStr(strings.Join(conc, sep))
			}
			flat := []Term{IntC(int64(len(parts)))}
			for _, p := range parts {
				ps, ok := p.(VStr)
				if !ok || !ex.flattenStr(ps, &flat) {
					panic(unsupported{"strings.Join of these parts"})
				}
			}
			t := ex.injectiveAtom("join:"+sep, flat)
			return VStr{Atom: &t}
		}
		m["strings.TrimPrefix"] = func(ex *Exec, fr *frame, cc *ssa.CallCommon, a []Value) Value {
			s, p := a[0].(VStr), cstr(a[1])
			if s.Conc != nil {
				return concStr(strings.TrimPrefix(*s.Conc, p))
			}
			if s.Bytes != nil {
				if len(p) > len(s.Bytes) {
					return s
				}
				c := BoolC(true)
				for i := 0; i < len(p); i++ {
					c = And(c, Eq(s.Bytes[i], IntC(int64(p[i]))))
				}
				if ex.decide(c) {
					return VStr{Bytes: append([]Term{}, s.Bytes[len(p):]...)}
				}
				return s
			}
			panic(unsupported{"TrimPrefix on atom"})
		}
		m["encoding/hex.DecodeString"] = func(ex *Exec, fr *frame, cc *ssa.CallCommon, a []Value) Value {
			s := a[0].(VStr)
			if s.IsHexOf {
				return VTuple{termsToSlice(ex, append([]Term{}, s.HexOf...)), nilErr()}
			}
			if s.Atom != nil {
				// atoms: hex text <-> bytes is a bijection on atoms; validity is an uninterpreted predicate
				if s.Hexed {
					return VTuple{VStr{Atom: s.Atom, N: s.N / 2}, nilErr()}
				}
				ok := ex.ufApp("hexok", true, *s.Atom)
				if ex.decide(ok) {
					t := ex.ufApp("hexdec", false, *s.Atom)
					return VTuple{VStr{Atom: &t, N: 32}, nilErr()}
				}
				return VTuple{VSlice{}, ex.mkErr("encoding/hex: invalid", nil)}
			}
			bs, _ := ex.byteTerms(s)
			allc := true
			for _, b := range bs {
				allc = allc && b.Const
			}
			if allc {
				// concrete text: exactly encoding/hex (on an error it still returns the bytes decoded so far)
				raw := make([]byte, len(bs))
				for i, b := range bs {
					raw[i] = byte(b.I.Int64())
				}
				dec, err := hex.DecodeString(string(raw))
				e := make([]Value, len(dec))
				for i := range e {
					e[i] = VInt{IntC(int64(dec[i]))}
				}
				out := ex.mkSlice(e)
				if err != nil {
					return VTuple{out, ex.mkErr("encoding/hex: invalid", nil)}
				}
				return VTuple{out, nilErr()}
			}
			ok := BoolC(len(bs)%2 == 0)
			for _, b := range bs {
				ok = And(ok, isHexDigit(b))
			}
			if ex.decide(ok) {
				e := make([]Value, len(bs)/2)
				for i := range e {
					e[i] = VInt{ex.nameT(Add(Mul(hexDigitVal(bs[2*i]), IntC(16)), hexDigitVal(bs[2*i+1])))}
				}
				if len(e) == 0 {
					return VTuple{ex.mkSlice([]Value{}), nilErr()}
				}
				return VTuple{ex.mkSlice(e), nilErr()}
			}
			// malformed text: like encoding/hex, return the bytes decoded before the first bad pair (callers that ignore
			// the error see them) together with the error
			var pre []Value
			for i := 0; i+1 < len(bs); i += 2 {
				if !ex.decide(And(isHexDigit(bs[i]), isHexDigit(bs[i+1]))) {
					break
				}
				pre = append(pre, VInt{ex.nameT(Add(Mul(hexDigitVal(bs[i]), IntC(16)), hexDigitVal(bs[i+1])))})
			}
			if pre == nil {
				pre = []Value{}
			}
			return VTuple{ex.mkSlice(pre), ex.mkErr("encoding/hex: invalid", nil)}
		}
		m["encoding/hex.EncodeToString"] = func(ex *Exec, fr *frame, cc *ssa.CallCommon, a []Value) Value {
			if s, ok := a[0].(VStr); ok && s.Atom != nil {
				return VStr{Atom: s.Atom, N: s.N * 2, Hexed: true}
			}
			bs, ok := ex.byteTerms(a[0])
			if !ok {
				panic(unsupported{"hex.EncodeToString"})
			}
			allc := true
			for _, b := range bs {
				allc = allc && b.Const
			}
			if allc {
				raw := make([]byte, len(bs))
				for i, b := range bs {
					raw[i] = byte(b.I.Int64())
				}
				return concStr(fmt.Sprintf("%x", raw))
			}
			return VStr{IsHexOf: true, HexOf: append([]Term{}, bs...)}
		}
		// fmt.Sprintf: an injective function of (format, arguments) when the arguments can be flattened
		m["fmt.Sprintf"] = func(ex *Exec, fr *frame, cc *ssa.CallCommon, a []Value) Value {
			f, ok := a[0].(VStr)
			if !ok || f.Conc == nil {
				return ex.freshAtom("fmtstr")
			}
			// "%064x" of a non-negative integer below 16^68 is exactly a hex numeral text (see ndHexVal): its order,
			// length and numeric value stay available
			if *f.Conc == "%064x" {
				if args := sliceElems(a[1]); len(args) == 1 {
					if iv, ok := args[0].(VIface); ok {
						var t *Term
						switch v := iv.V.(type) {
						case VInt:
							t = &v.T
						case VPtr:
							if v.O != nil {
								if in, ok := v.load().(VInt); ok {
									t = &in.T
								}
							}
						}
						if t != nil && !t.Const && ex.decide(And(Ge(*t, IntC(0)), Lt(*t, IntB(pow16(68))))) {
							id := ex.nameT(Mul(*t, IntC(2)))
							return VStr{Atom: &id, HexNum: true}
						}
					}
				}
			}
			var flat []Term
			for _, arg := range sliceElems(a[1]) {
				// a byte array and a byte slice with the same contents print alike (%x, %s, %v of [N]byte differ only
				// for %v; the module code formats hashes with %x)
				if iv, ok := arg.(VIface); ok && iv.Typ != nil {
					if arr, ok := iv.V.(VArr); ok {
						allInt := true
						for _, e := range arr.E {
							_, isInt := e.(VInt)
							allInt = allInt && isInt
						}
						if allInt {
							flat = append(flat, IntC(int64(len(arr.E))))
						}
					}
				}
				if !ex.flattenVal(arg, &flat) {
					return ex.freshAtom("fmtstr")
				}
			}
			t := ex.injectiveAtom("sprintf:"+*f.Conc, flat)
			return VStr{Atom: &t}
		}
		m["fmt.Sprint"] = m["fmt.Sprintf"]
		m["fmt.Println"] = func(ex *Exec, fr *frame, cc *ssa.CallCommon, a []Value) Value {
			return VTuple{VInt{IntC(0)}, nilErr()}
		}
		m["fmt.Printf"] = m["fmt.Println"]
		m["strconv.FormatUint"] = func(ex *Exec, fr *frame, cc *ssa.CallCommon, a []Value) Value { return ex.fmtAtom("itoa", a[0]) }
		m["strconv.FormatInt"] = m["strconv.FormatUint"]
		m["strconv.Itoa"] = m["strconv.FormatUint"]
		m["strconv.FormatBool"] = func(ex *Exec, fr *frame, cc *ssa.CallCommon, a []Value) Value { return ex.freshAtom("fmtstr") }
		m["strconv.Quote"] = func(ex *Exec, fr *frame, cc *ssa.CallCommon, a []Value) Value { return ex.freshAtom("fmtstr") }

		// ---------------- sort: insertion sort through the real less closure (stable)
		sortFn := func(ex *Exec, fr *frame, cc *ssa.CallCommon, a []Value) Value {
			s := a[0].(VIface).V.(VSlice)
			less := a[1].(VClos)
			callLess := func(i, j int) bool {
				r := ex.callFn(fr, cc, less.Fn, []Value{VInt{IntC(int64(i))}, VInt{IntC(int64(j))}}, less.Bind)
				return ex.decide(r.(VBool).T)
			}
			for i := 1; i < s.Len; i++ {
				for j := i; j > 0 && callLess(j, j-1); j-- {
					arr := s.O.V.(VArr)
					e := make([]Value, len(arr.E))
					copy(e, arr.E)
					e[s.Off+j], e[s.Off+j-1] = e[s.Off+j-1], e[s.Off+j]
					s.O.V = VArr{e}
				}
			}
			return nil
		}
		m["sort.SliceStable"] = sortFn
		// sort.Slice (pdqsort) is deterministic but not stable. It is modelled as a stable sort; a harness whose
		// property depends on the order of less-equal elements quantifies over input permutations itself.
		m["sort.Slice"] = sortFn

		// ---------------- sync: executions are sequential (no goroutines in the model): locking is a no-op
		// (no goroutines in the model); which mutexes are held is tracked for the lock-discipline obligation
		lock := func(ex *Exec, fr *frame, cc *ssa.CallCommon, a []Value) Value {
			k := muKey(a[0].(VPtr))
			if ex.held[k] > 0 || ex.held[k+"/r"] > 0 {
				panic(goPanic{"deadlock: lock of a mutex this execution already holds"})
			}
			ex.held[k]++
			return nil
		}
		unlock := func(ex *Exec, fr *frame, cc *ssa.CallCommon, a []Value) Value {
			k := muKey(a[0].(VPtr))
			if ex.held[k] == 0 {
				panic(goPanic{"sync: unlock of unlocked mutex"})
			}
			ex.held[k]--
			return nil
		}
		m["(*sync.Mutex).Lock"], m["(*sync.RWMutex).Lock"] = lock, lock
		m["(*sync.Mutex).Unlock"], m["(*sync.RWMutex).Unlock"] = unlock, unlock
		m["(*sync.RWMutex).RLock"] = func(ex *Exec, fr *frame, cc *ssa.CallCommon, a []Value) Value {
			k := muKey(a[0].(VPtr))
			if ex.held[k] > 0 {
				panic(goPanic{"deadlock: read lock of a mutex this execution holds for writing"})
			}
			ex.held[k+"/r"]++
			return nil
		}
		m["(*sync.RWMutex).RUnlock"] = func(ex *Exec, fr *frame, cc *ssa.CallCommon, a []Value) Value {
			k := muKey(a[0].(VPtr))
			if ex.held[k+"/r"] == 0 {
				panic(goPanic{"sync: RUnlock of unlocked RWMutex"})
			}
			ex.held[k+"/r"]--
			return nil
		}
		// ---------------- misc no-ops
		m["github.com/cosmos/cosmos-sdk/telemetry.ModuleMeasureSince"] = noop
		m["github.com/cosmos/cosmos-sdk/telemetry.ModuleSetGauge"] = noop
		m["github.com/cosmos/cosmos-sdk/telemetry.IncrCounter"] = noop
		m["github.com/cosmos/cosmos-sdk/telemetry.IncrCounterWithLabels"] = noop
		m["github.com/cosmos/cosmos-sdk/telemetry.SetGaugeWithLabels"] = noop
		m["github.com/cosmos/cosmos-sdk/telemetry.SetGauge"] = noop
		m["github.com/cosmos/cosmos-sdk/telemetry.MeasureSince"] = noop
		m["github.com/cosmos/cosmos-sdk/telemetry.NewLabel"] = func(ex *Exec, fr *frame, cc *ssa.CallCommon, a []Value) Value {
			return ex.zero(cc.Signature().Results().At(0).Type())
		}
		m["context.Background"] = func(ex *Exec, fr *frame, cc *ssa.CallCommon, a []Value) Value {
			return VIface{Typ: errMarkerType, V: VOpaque{Kind: "ctx"}}
		}
		m["context.TODO"] = m["context.Background"]
	})
}

var _ types.Type
