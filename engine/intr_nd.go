package main

import (
	"fmt"
	"math/big"
	"regexp"
	"strings"

	"golang.org/x/tools/go/ssa"
)

var identRe = regexp.MustCompile(`[^A-Za-z0-9_.]`)

func cstr(v Value) string {
	s, ok := v.(VStr)
	if !ok || s.Conc == nil {
		panic(unsupported{"constant string expected"})
	}
	return *s.Conc
}

func cint(v Value) int {
	t := v.(VInt).T
	if !t.Const {
		panic(unsupported{"constant int expected"})
	}
	return int(t.I.Int64())
}

func symName(v Value) string {
	return "nd_" + identRe.ReplaceAllString(cstr(v), "_")
}

func (ex *Exec) ndInt(name string, lo, hi *big.Int) Term {
	if pv, ok := ex.cfg.Pin[name]; ok {
		bi, ok2 := new(big.Int).SetString(pv, 10)
		if !ok2 {
			panic(unsupported{"bad pinned value " + pv})
		}
		if !ex.ndSeen[name] {
			ex.ndSeen[name] = true
		}
		return IntB(bi)
	}
	ex.declare(name, "Int")
	t := IntVar(name)
	if !ex.ndSeen[name] {
		ex.ndSeen[name] = true
		ex.ndNames = append(ex.ndNames, name)
		if lo != nil {
			ex.assume(Ge(t, IntB(lo)))
		}
		if hi != nil {
			ex.assume(Le(t, IntB(hi)))
		}
	}
	return t
}

func pow2(n uint) *big.Int { return new(big.Int).Lsh(big.NewInt(1), n) }

func init() {
	extraIntrinsics = append(extraIntrinsics, func(m map[string]intrinsic) {
		rng := func(lo, hi *big.Int) intrinsic {
			return func(ex *Exec, fr *frame, cc *ssa.CallCommon, a []Value) Value {
				return VInt{ex.ndInt(symName(a[0]), lo, hi)}
			}
		}
		m["nd:ndUint64"] = rng(big.NewInt(0), new(big.Int).Sub(pow2(64), big.NewInt(1)))
		m["nd:ndInt64"] = rng(new(big.Int).Neg(pow2(63)), new(big.Int).Sub(pow2(63), big.NewInt(1)))
		m["nd:ndInt"] = m["nd:ndInt64"]
		m["nd:ndUint32"] = rng(big.NewInt(0), new(big.Int).Sub(pow2(32), big.NewInt(1)))
		m["nd:ndInt32"] = rng(new(big.Int).Neg(pow2(31)), new(big.Int).Sub(pow2(31), big.NewInt(1)))
		m["nd:ndUint8"] = rng(big.NewInt(0), big.NewInt(255))
		m["nd:ndBigInt"] = rng(nil, nil)
		m["nd:ndDecRaw"] = rng(nil, nil)
		m["nd:ndBigPtr"] = func(ex *Exec, fr *frame, cc *ssa.CallCommon, a []Value) Value {
			return VPtr{O: ex.newObj(VInt{ex.ndInt(symName(a[0]), nil, nil)})}
		}
		m["nd:ndTime"] = rng(big.NewInt(0), pow2(62))
		m["nd:ndBool"] = func(ex *Exec, fr *frame, cc *ssa.CallCommon, a []Value) Value {
			n := symName(a[0])
			if pv, ok := ex.cfg.Pin[n]; ok {
				return VBool{BoolC(pv == "true")}
			}
			ex.declare(n, "Bool")
			if !ex.ndSeen[n] {
				ex.ndSeen[n] = true
				ex.ndNames = append(ex.ndNames, n)
			}
			return VBool{BoolVar(n)}
		}
		atom := func(n int) intrinsic {
			return func(ex *Exec, fr *frame, cc *ssa.CallCommon, a []Value) Value {
				t := ex.ndInt(symName(a[0]), big.NewInt(0), big.NewInt(1<<40))
				return VStr{Atom: &t, N: n}
			}
		}
		m["nd:ndBytes"] = atom(20)
		m["nd:ndAddr"] = atom(20)
		m["nd:ndHash"] = atom(32)
		m["nd:ndString"] = atom(16)
		m["nd:ndBech32"] = atom(45)
		m["nd:ndHexVal"] = func(ex *Exec, fr *frame, cc *ssa.CallCommon, a []Value) Value {
			// id = 2*value + spelling bit; value < 16^68: the text is "0" + the value zero-padded to 64 digits (up to 68
			// digits from 2^256 on: the property speaks of values of any length and magnitude), "00" more in front in
			// the alternative spelling
			t := ex.ndInt(symName(a[0]), big.NewInt(0), new(big.Int).Sub(new(big.Int).Lsh(big.NewInt(1), 4*68+1), big.NewInt(1)))
			return VStr{Atom: &t, HexNum: true, HexLead: 1}
		}
		m["nd:ndBytesN"] = func(ex *Exec, fr *frame, cc *ssa.CallCommon, a []Value) Value {
			t := ex.ndInt(symName(a[0]), big.NewInt(0), big.NewInt(1<<40))
			return VStr{Atom: &t, N: cint(a[1])}
		}
		m["nd:nm"] = func(ex *Exec, fr *frame, cc *ssa.CallCommon, a []Value) Value {
			return concStr(fmt.Sprintf("%s_%d", cstr(a[0]), cint(a[1])))
		}
		m["nd:ndTier"] = func(ex *Exec, fr *frame, cc *ssa.CallCommon, a []Value) Value {
			return VInt{IntC(int64(ex.cfg.Tier))}
		}
		m["nd:ndSymbolic"] = func(ex *Exec, fr *frame, cc *ssa.CallCommon, a []Value) Value {
			return VBool{BoolC(true)}
		}
		m["nd:ndLen"] = func(ex *Exec, fr *frame, cc *ssa.CallCommon, a []Value) Value {
			return VInt{IntC(int64(ex.pick(cstr(a[0]), cint(a[1])+1)))}
		}
		m["nd:ndPick"] = func(ex *Exec, fr *frame, cc *ssa.CallCommon, a []Value) Value {
			return VInt{IntC(int64(ex.pick(cstr(a[0]), cint(a[1]))))}
		}
		m["nd:ndAssume"] = func(ex *Exec, fr *frame, cc *ssa.CallCommon, a []Value) Value {
			c := a[0].(VBool).T
			if c.Const {
				if !c.B {
					panic(pathEnd{"assume false"})
				}
				return nil
			}
			if ex.query(c, false) == "unsat" {
				panic(pathEnd{"assume false"})
			}
			ex.assume(c)
			return nil
		}
		assertImpl := func(ex *Exec, c Term, label, finding string, region Term) {
			if finding != "" {
				if ex.LabelFinding == nil {
					ex.LabelFinding = map[string]string{}
				}
				ex.LabelFinding[label] = finding
			}
			ex.asserts = append(ex.asserts, assertRec{label, c})
			ex.events = append(ex.events, Event{"assert", label, true})
			if c.Const && c.B {
				ex.Discharged[label]++
				return
			}
			neg := Not(c)
			if finding == "" {
				r := ex.query(neg, false)
				if r == "sat" {
					r = ex.queryAll(neg)
					if r == "sat" {
						ex.recordViolation(label, "assert", "", "")
					}
				}
				switch r {
				case "unsat":
					ex.Discharged[label]++
				case "sat":
				default:
					ex.Unknown[label]++
				}
				return
			}
			// split by the known-finding region
			out := ex.query(And(neg, Not(region)), false)
			if out == "sat" {
				out = ex.queryAll(And(neg, Not(region)))
				if out == "sat" {
					ex.recordViolation(label, "assert", "", "")
				}
			}
			in := ex.query(And(neg, region), false)
			if in == "sat" {
				in = ex.queryAll(And(neg, region))
				if in == "sat" {
					ex.recordViolation(label, "assert", finding, "")
				}
			}
			switch {
			case out == "unsat": // inside the listed region nothing is claimed; "in" only decides whether the finding is printed
				ex.Discharged[label]++
			case out == "sat":
			default:
				ex.Unknown[label]++
			}
		}
		m["nd:ndAssert"] = func(ex *Exec, fr *frame, cc *ssa.CallCommon, a []Value) Value {
			assertImpl(ex, a[0].(VBool).T, cstr(a[1]), "", Term{})
			return nil // asserted conditions are NOT added to the path condition
		}
		m["nd:ndAssertK"] = func(ex *Exec, fr *frame, cc *ssa.CallCommon, a []Value) Value {
			assertImpl(ex, a[0].(VBool).T, cstr(a[1]), cstr(a[2]), a[3].(VBool).T)
			return nil
		}
		// lock discipline: everything reachable from root is guarded by the mutex
		m["nd:ndGuardedBy"] = func(ex *Exec, fr *frame, cc *ssa.CallCommon, a []Value) Value {
			root := a[0].(VIface).V.(VPtr)
			ex.guards = append(ex.guards, lockGuard{root: root, muKey: muKey(a[1].(VPtr))})
			return nil
		}
		m["nd:ndLockFree"] = func(ex *Exec, fr *frame, cc *ssa.CallCommon, a []Value) Value {
			return VBool{BoolC(ex.held[muKey(a[0].(VPtr))] == 0)}
		}
		// two calls that run concurrently in reality: executed one after the other, in either order
		m["nd:ndConcurrently"] = func(ex *Exec, fr *frame, cc *ssa.CallCommon, a []Value) Value {
			f, g := a[0].(VClos), a[1].(VClos)
			if ex.pick("concurrentOrder", 2) == 1 {
				f, g = g, f
			}
			ex.callFn(fr, cc, f.Fn, nil, f.Bind)
			ex.callFn(fr, cc, g.Fn, nil, g.Bind)
			return nil
		}
		m["nd:ndReach"] = func(ex *Exec, fr *frame, cc *ssa.CallCommon, a []Value) Value {
			l := cstr(a[0])
			ex.Reached[l]++
			ex.events = append(ex.events, Event{"reach", l, true})
			return nil
		}
		m["nd:ndPanicRegion"] = func(ex *Exec, fr *frame, cc *ssa.CallCommon, a []Value) Value {
			ex.regions = append(ex.regions, panicRegion{cstr(a[0]), cstr(a[1]), a[2].(VBool).T})
			return nil
		}
		m["nd:ndAllowPanic"] = func(ex *Exec, fr *frame, cc *ssa.CallCommon, a []Value) Value {
			ex.allowed = append(ex.allowed, cstr(a[0]))
			return nil
		}
		m["nd:ndStr"] = func(ex *Exec, fr *frame, cc *ssa.CallCommon, a []Value) Value {
			n := cint(a[1])
			bs := make([]Term, n)
			for i := range bs {
				bs[i] = ex.ndInt(fmt.Sprintf("%s_%d", symName(a[0]), i), big.NewInt(0), big.NewInt(255))
			}
			return VStr{Bytes: bs}
		}
		m["nd:ndByteSlice"] = func(ex *Exec, fr *frame, cc *ssa.CallCommon, a []Value) Value {
			n := cint(a[1])
			e := make([]Value, n)
			for i := range e {
				e[i] = VInt{ex.ndInt(fmt.Sprintf("%s_%d", symName(a[0]), i), big.NewInt(0), big.NewInt(255))}
			}
			return VSlice{O: ex.newObj(VArr{e}), Len: n, Cap: n}
		}
		// node-local configuration: ndNodeConfig(i) switches to node i; configuration reads (telemetry switch ...)
		// return an arbitrary value that is fixed per node
		m["nd:ndNodeConfig"] = func(ex *Exec, fr *frame, cc *ssa.CallCommon, a []Value) Value {
			ex.cfgEpoch = cint(a[0])
			return nil
		}
		// ndGas: the store accesses made so far (natively: the gas consumed; only compared for equality between runs)
		m["nd:ndGas"] = func(ex *Exec, fr *frame, cc *ssa.CallCommon, a []Value) Value {
			return VInt{IntC(int64(ex.StoreOps))}
		}
		m["github.com/cosmos/cosmos-sdk/telemetry.IsTelemetryEnabled"] = func(ex *Exec, fr *frame, cc *ssa.CallCommon, a []Value) Value {
			n := fmt.Sprintf("nd_nodecfg_telemetry_%d", ex.cfgEpoch)
			ex.declare(n, "Bool")
			if !ex.ndSeen[n] {
				ex.ndSeen[n] = true
				ex.ndNames = append(ex.ndNames, n)
			}
			return VBool{BoolVar(n)}
		}
		m["nd:ndAtomLess"] = func(ex *Exec, fr *frame, cc *ssa.CallCommon, a []Value) Value {
			sa, oka := a[0].(VStr)
			sb, okb := a[1].(VStr)
			if oka && okb && sa.Atom != nil && sb.Atom != nil {
				return VBool{Lt(*sa.Atom, *sb.Atom)}
			}
			return VBool{ex.lexLess(a[0], a[1])}
		}
		m["nd:ndB2I"] = func(ex *Exec, fr *frame, cc *ssa.CallCommon, a []Value) Value {
			return VInt{Ite(a[0].(VBool).T, IntC(1), IntC(0))}
		}
		m["nd:ndAnd"] = func(ex *Exec, fr *frame, cc *ssa.CallCommon, a []Value) Value {
			return VBool{And(a[0].(VBool).T, a[1].(VBool).T)}
		}
		m["nd:ndOr"] = func(ex *Exec, fr *frame, cc *ssa.CallCommon, a []Value) Value {
			return VBool{Or(a[0].(VBool).T, a[1].(VBool).T)}
		}
		m["nd:ndImplies"] = func(ex *Exec, fr *frame, cc *ssa.CallCommon, a []Value) Value {
			return VBool{Or(Not(a[0].(VBool).T), a[1].(VBool).T)}
		}
		m["nd:ndIteInt"] = func(ex *Exec, fr *frame, cc *ssa.CallCommon, a []Value) Value {
			return VInt{Ite(a[0].(VBool).T, ti(a[1]), ti(a[2]))}
		}
		m["nd:ndIteBig"] = m["nd:ndIteInt"]
		m["nd:ndIteU64"] = m["nd:ndIteInt"]
		// ndOrderKey: an arbitrary but fixed integer attached to an atom (used as a symbolic total order)
		m["nd:ndAtomID"] = func(ex *Exec, fr *frame, cc *ssa.CallCommon, a []Value) Value {
			return VInt{ex.atomTerm(a[0])}
		}
	})
}

func (ex *Exec) atomTerm(v Value) Term {
	s := v.(VStr)
	if s.Atom != nil {
		return *s.Atom
	}
	if s.Conc != nil {
		return ex.atomOfConst(*s.Conc)
	}
	panic(unsupported{"atom expected"})
}

var _ = strings.HasPrefix
