package main

import (
	"fmt"
	"go/types"
	"sort"
	"strings"

	"golang.org/x/tools/go/ssa"
)

// ---------------------------------------------------------------- sdk.Context

type eventLog struct{ events []Value }

type ctxState struct {
	height  Term
	time    Term
	chainID Value
	events  *eventLog
	extra   map[string]Value
}

func (ex *Exec) newCtx() Value {
	return VOpaque{Kind: "sdkctx", Data: &ctxState{height: IntC(0), time: IntB(zeroTimeNanos), chainID: concStr(""), events: &eventLog{}, extra: map[string]Value{}}}
}

func ctxOf(v Value) *ctxState {
	switch x := v.(type) {
	case VOpaque:
		if x.Kind == "sdkctx" {
			return x.Data.(*ctxState)
		}
	case VIface:
		if x.Typ != nil {
			return ctxOf(x.V)
		}
	}
	panic(unsupported{fmt.Sprintf("sdk.Context expected, got %T", v)})
}

func (c *ctxState) with(f func(n *ctxState)) Value {
	n := *c
	n.extra = map[string]Value{}
	for k, v := range c.extra {
		n.extra[k] = v
	}
	f(&n)
	return VOpaque{Kind: "sdkctx", Data: &n}
}

var loggerType types.Type = types.NewNamed(types.NewTypeName(0, nil, "symLogger", nil), types.NewStruct(nil, nil), nil)
var evmgrType types.Type = types.NewNamed(types.NewTypeName(0, nil, "symEventManager", nil), types.NewStruct(nil, nil), nil)

// ---------------------------------------------------------------- collections

type collEntry struct{ key, val Value }

type collMap struct {
	name    string
	entries []collEntry
	multis  []*multiIdx
}

type multiIdx struct {
	parent *collMap
	name   string
	ref    VClos // func(pk, value) (refKey, error)
	unique bool
	reverse bool // ReversePair: primary key Pair(K1,K2), reference key K2
}

type itemState struct {
	name    string
	present bool
	val     Value
}

type seqState struct {
	name string
	set  bool
	val  Term
}

type rangeSpec struct {
	prefix     []Value // leading key components fixed
	startIncl  Value
	startExcl  Value
	endIncl    Value
	endExcl    Value
	descending bool
}

type iterState struct {
	entries []collEntry
	pos     int
}

func keyParts(k Value) []Value {
	if o, ok := k.(VOpaque); ok && o.Kind == "tuple" {
		var out []Value
		for _, p := range o.Data.([]Value) {
			out = append(out, keyParts(p)...)
		}
		return out
	}
	return []Value{k}
}

func mkTuple(parts ...Value) Value { return VOpaque{Kind: "tuple", Data: parts} }

func (ex *Exec) collKeyEq(a, b Value) Term {
	pa, pb := keyParts(a), keyParts(b)
	if len(pa) != len(pb) {
		panic(unsupported{"collection key arity mismatch"})
	}
	r := BoolC(true)
	for i := range pa {
		r = And(r, ex.scalarKeyEq(pa[i], pb[i]))
	}
	return r
}

func (ex *Exec) scalarKeyEq(a, b Value) Term {
	switch x := a.(type) {
	case VInt:
		return Eq(x.T, b.(VInt).T)
	case VBool:
		return Eq(x.T, b.(VBool).T)
	case VStr:
		if y, ok := b.(VStr); ok {
			return ex.strEq(x, y)
		}
		return ex.bytesEq(a, b)
	case VSlice:
		return ex.bytesEq(a, b)
	}
	panic(unsupported{fmt.Sprintf("collection key component %T", a)})
}

// scalarKeyLess: the store's byte order of one key component.
func (ex *Exec) scalarKeyLess(a, b Value) Term {
	switch x := a.(type) {
	case VInt:
		return Lt(x.T, b.(VInt).T)
	case VBool:
		return And(Not(x.T), b.(VBool).T)
	case VStr:
		if y, ok := b.(VStr); ok {
			if x.Conc != nil && y.Conc != nil {
				if len(*x.Conc) != len(*y.Conc) {
					return BoolC(len(*x.Conc) < len(*y.Conc))
				}
				return BoolC(*x.Conc < *y.Conc)
			}
			if x.Atom != nil || y.Atom != nil {
				return Lt(ex.atomTerm(x), ex.atomTerm(y))
			}
		}
		return ex.lexLess(a, b)
	case VSlice:
		return ex.lexLess(a, b)
	}
	panic(unsupported{fmt.Sprintf("ordering of key component %T", a)})
}

// lexLess: byte-wise order of two byte-level values (shorter first when one is a prefix - length-prefixed keys).
func (ex *Exec) lexLess(a, b Value) Term {
	x, ok1 := ex.byteTerms(a)
	y, ok2 := ex.byteTerms(b)
	if !ok1 || !ok2 {
		panic(unsupported{"ordering between an atom and a byte-level key"})
	}
	if len(x) != len(y) {
		return BoolC(len(x) < len(y))
	}
	var r Term = BoolC(false)
	for i := len(x) - 1; i >= 0; i-- {
		r = Or(Lt(x[i], y[i]), And(Eq(x[i], y[i]), r))
	}
	return r
}

func (ex *Exec) collKeyLess(a, b Value) Term {
	pa, pb := keyParts(a), keyParts(b)
	// lexicographic
	var r Term = BoolC(false)
	for i := len(pa) - 1; i >= 0; i-- {
		r = Or(ex.scalarKeyLess(pa[i], pb[i]), And(ex.scalarKeyEq(pa[i], pb[i]), r))
	}
	return r
}

func (ex *Exec) deepCopy(v Value) Value {
	switch x := v.(type) {
	case VStruct:
		f := make([]Value, len(x.F))
		for i := range f {
			f[i] = ex.deepCopy(x.F[i])
		}
		return VStruct{f}
	case VArr:
		e := make([]Value, len(x.E))
		for i := range e {
			e[i] = ex.deepCopy(x.E[i])
		}
		return VArr{e}
	case VSlice:
		if x.O == nil {
			return x
		}
		src := x.O.V.(VArr).E[x.Off : x.Off+x.Len]
		e := make([]Value, len(src))
		for i := range e {
			e[i] = ex.deepCopy(src[i])
		}
		return VSlice{O: ex.newObj(VArr{e}), Len: len(e), Cap: len(e)}
	case VPtr:
		if x.O == nil {
			return x
		}
		if _, isOpaque := x.O.V.(VOpaque); isOpaque {
			return x
		}
		return VPtr{O: ex.newObj(ex.deepCopy(x.load()))}
	}
	return v
}

func collOf(v Value) *collMap {
	switch x := v.(type) {
	case VOpaque:
		if x.Kind == "map" {
			return x.Data.(*collMap)
		}
	case VPtr: // *IndexedMap: struct{Indexes, computedIndexes, m}
		if x.O == nil {
			panic(goPanic{"nil IndexedMap"})
		}
		return collOf(x.load().(VStruct).F[2])
	case VStruct: // IndexedMap value
		return collOf(x.F[2])
	}
	panic(unsupported{fmt.Sprintf("collection expected, got %T", v)})
}

func (ex *Exec) collNotFound() Value {
	return errIface(errOf(ex.globalByName("cosmossdk.io/collections", "ErrNotFound")))
}

// selectRange returns the entries matching the ranger in iteration order (forks on symbolic keys).
func (ex *Exec) selectRange(cm *collMap, ranger Value) []collEntry {
	spec := &rangeSpec{}
	if ri, ok := ranger.(VIface); ok && ri.Typ != nil {
		spec = rangeOf(ri.V)
	} else if rp, ok := ranger.(VPtr); ok && rp.O != nil {
		spec = rangeOf(rp)
	}
	var sel []collEntry
	for _, e := range cm.entries {
		parts := keyParts(e.key)
		c := BoolC(true)
		np := len(spec.prefix)
		if np > len(parts) {
			panic(unsupported{"range prefix longer than key"})
		}
		for i := 0; i < np; i++ {
			c = And(c, ex.scalarKeyEq(parts[i], spec.prefix[i]))
		}
		bound := func(b Value, f func(x, y Value) Term) {
			if b == nil {
				return
			}
			if np >= len(parts) {
				panic(unsupported{"range bound beyond key"})
			}
			if np == 0 && len(parts) > 1 {
				// bound is a full key
				c = And(c, f(e.key, b))
				return
			}
			c = And(c, f(parts[np], b))
		}
		lessK := func(x, y Value) Term {
			if _, ok := x.(VOpaque); ok {
				return ex.collKeyLess(x, y)
			}
			return ex.scalarKeyLess(x, y)
		}
		eqK := func(x, y Value) Term {
			if _, ok := x.(VOpaque); ok {
				return ex.collKeyEq(x, y)
			}
			return ex.scalarKeyEq(x, y)
		}
		bound(spec.startIncl, func(x, y Value) Term { return Not(lessK(x, y)) })
		bound(spec.startExcl, func(x, y Value) Term { return lessK(y, x) })
		bound(spec.endIncl, func(x, y Value) Term { return Or(lessK(x, y), eqK(x, y)) })
		bound(spec.endExcl, func(x, y Value) Term { return lessK(x, y) })
		if ex.decide(c) {
			sel = append(sel, e)
		}
	}
	ex.sortEntries(sel, spec.descending)
	return sel
}

func (ex *Exec) sortEntries(sel []collEntry, desc bool) {
	for i := 1; i < len(sel); i++ {
		for j := i; j > 0; j-- {
			before := ex.collKeyLess(sel[j].key, sel[j-1].key)
			if desc {
				before = ex.collKeyLess(sel[j-1].key, sel[j].key)
			}
			if !ex.decide(before) {
				break
			}
			sel[j], sel[j-1] = sel[j-1], sel[j]
		}
	}
}

func rangeOf(v Value) *rangeSpec {
	switch x := v.(type) {
	case VPtr:
		if x.O == nil {
			return &rangeSpec{}
		}
		if o, ok := x.load().(VOpaque); ok && o.Kind == "range" {
			return o.Data.(*rangeSpec)
		}
		// new(collections.Range[K]) allocated by module code: zero struct
		rs := &rangeSpec{}
		x.O.V = VOpaque{Kind: "range", Data: rs}
		return rs
	case VOpaque:
		if x.Kind == "range" {
			return x.Data.(*rangeSpec)
		}
	}
	panic(unsupported{fmt.Sprintf("ranger %T", v)})
}

func (ex *Exec) iterValue(sel []collEntry) Value {
	return VOpaque{Kind: "iter", Data: &iterState{entries: sel}}
}

func iterOf(v Value) *iterState {
	if p, ok := v.(VPtr); ok {
		v = p.load()
	}
	o, ok := v.(VOpaque)
	if !ok || o.Kind != "iter" {
		panic(unsupported{fmt.Sprintf("iterator expected, got %T", v)})
	}
	return o.Data.(*iterState)
}

func (ex *Exec) refKeyOf(fr *frame, cc *ssa.CallCommon, mi *multiIdx, e collEntry) Value {
	if mi.reverse {
		o, ok := e.key.(VOpaque)
		if !ok || o.Kind != "tuple" || len(o.Data.([]Value)) != 2 {
			panic(unsupported{"ReversePair index over a non-pair key"})
		}
		return o.Data.([]Value)[1]
	}
	r := ex.callFn(fr, cc, mi.ref.Fn, []Value{e.key, e.val}, mi.ref.Bind)
	t := r.(VTuple)
	if errOf(t[1]) != nil {
		panic(unsupported{"index function returned an error"})
	}
	return t[0]
}

func multiOf(v Value) *multiIdx {
	p := v.(VPtr)
	if p.O == nil {
		panic(goPanic{"nil index"})
	}
	return p.load().(VOpaque).Data.(*multiIdx)
}

func init() {
	extraIntrinsics = append(extraIntrinsics, func(m map[string]intrinsic) {
		id := func(ex *Exec, fr *frame, cc *ssa.CallCommon, a []Value) Value { return a[0] }
		noop := func(ex *Exec, fr *frame, cc *ssa.CallCommon, a []Value) Value { return nil }
		opaque := func(kind string) intrinsic {
			return func(ex *Exec, fr *frame, cc *ssa.CallCommon, a []Value) Value { return VOpaque{Kind: kind} }
		}
		// ---------------- context
		sc := "(github.com/cosmos/cosmos-sdk/types.Context)."
		m["github.com/cosmos/cosmos-sdk/types.UnwrapSDKContext"] = func(ex *Exec, fr *frame, cc *ssa.CallCommon, a []Value) Value {
			return VOpaque{Kind: "sdkctx", Data: ctxOf(a[0])}
		}
		m["github.com/cosmos/cosmos-sdk/types.WrapSDKContext"] = func(ex *Exec, fr *frame, cc *ssa.CallCommon, a []Value) Value {
			return VIface{Typ: cc.Args[0].Type(), V: a[0]}
		}
		m[sc+"BlockHeight"] = func(ex *Exec, fr *frame, cc *ssa.CallCommon, a []Value) Value { return VInt{ctxOf(a[0]).height} }
		m[sc+"BlockTime"] = func(ex *Exec, fr *frame, cc *ssa.CallCommon, a []Value) Value { return VInt{ctxOf(a[0]).time} }
		m[sc+"ChainID"] = func(ex *Exec, fr *frame, cc *ssa.CallCommon, a []Value) Value { return ctxOf(a[0]).chainID }
		m[sc+"WithBlockHeight"] = func(ex *Exec, fr *frame, cc *ssa.CallCommon, a []Value) Value {
			return ctxOf(a[0]).with(func(n *ctxState) { n.height = ti(a[1]) })
		}
		m[sc+"WithBlockTime"] = func(ex *Exec, fr *frame, cc *ssa.CallCommon, a []Value) Value {
			return ctxOf(a[0]).with(func(n *ctxState) { n.time = ti(a[1]) })
		}
		m[sc+"WithChainID"] = func(ex *Exec, fr *frame, cc *ssa.CallCommon, a []Value) Value {
			return ctxOf(a[0]).with(func(n *ctxState) { n.chainID = a[1] })
		}
		for _, w := range []string{"WithHeaderInfo", "WithCometInfo", "WithConsensusParams", "WithEventManager", "WithGasMeter", "WithBlockGasMeter", "WithLogger", "WithIsCheckTx", "WithBlockHeader", "WithVoteInfos", "WithExecMode"} {
			w := w
			m[sc+w] = func(ex *Exec, fr *frame, cc *ssa.CallCommon, a []Value) Value {
				return ctxOf(a[0]).with(func(n *ctxState) { n.extra[w] = a[1] })
			}
		}
		getExtra := func(w string) intrinsic {
			return func(ex *Exec, fr *frame, cc *ssa.CallCommon, a []Value) Value {
				if v, ok := ctxOf(a[0]).extra[w]; ok {
					return v
				}
				return ex.zero(cc.Signature().Results().At(0).Type())
			}
		}
		m[sc+"ConsensusParams"] = getExtra("WithConsensusParams")
		m[sc+"CometInfo"] = getExtra("WithCometInfo")
		m[sc+"HeaderInfo"] = getExtra("WithHeaderInfo")
		m[sc+"VoteInfos"] = getExtra("WithVoteInfos")
		m[sc+"IsCheckTx"] = getExtra("WithIsCheckTx")
		m[sc+"ExecMode"] = getExtra("WithExecMode")
		m[sc+"Logger"] = func(ex *Exec, fr *frame, cc *ssa.CallCommon, a []Value) Value {
			return VIface{Typ: loggerType, V: VOpaque{Kind: "logger"}}
		}
		m[sc+"EventManager"] = func(ex *Exec, fr *frame, cc *ssa.CallCommon, a []Value) Value {
			return VIface{Typ: evmgrType, V: VOpaque{Kind: "evmgr", Data: ctxOf(a[0]).events}}
		}
		for _, lm := range []string{"Info", "Error", "Debug", "Warn"} {
			m["invoke:cosmossdk.io/log.Logger."+lm] = noop
		}
		m["invoke:cosmossdk.io/log.Logger.With"] = id
		m["invoke:cosmossdk.io/log.Logger.Impl"] = id
		emit := func(ex *Exec, fr *frame, cc *ssa.CallCommon, a []Value) Value {
			lg := a[0].(VIface).V.(VOpaque).Data.(*eventLog)
			lg.events = append(lg.events, a[1])
			return nil
		}
		m["invoke:github.com/cosmos/cosmos-sdk/types.EventManagerI.EmitEvent"] = emit
		m["invoke:github.com/cosmos/cosmos-sdk/types.EventManagerI.EmitEvents"] = emit
		m["invoke:github.com/cosmos/cosmos-sdk/types.EventManagerI.EmitTypedEvent"] = func(ex *Exec, fr *frame, cc *ssa.CallCommon, a []Value) Value {
			emit(ex, fr, cc, a)
			return nilErr()
		}
		m["invoke:github.com/cosmos/cosmos-sdk/types.EventManagerI.EmitTypedEvents"] = m["invoke:github.com/cosmos/cosmos-sdk/types.EventManagerI.EmitTypedEvent"]
		m["github.com/cosmos/cosmos-sdk/types.NewEvent"] = func(ex *Exec, fr *frame, cc *ssa.CallCommon, a []Value) Value {
			return VOpaque{Kind: "event", Data: []Value{a[0], a[1]}}
		}
		m["github.com/cosmos/cosmos-sdk/types.NewAttribute"] = func(ex *Exec, fr *frame, cc *ssa.CallCommon, a []Value) Value {
			return VOpaque{Kind: "attr", Data: []Value{a[0], a[1]}}
		}
		m["nd:ndEventCount"] = func(ex *Exec, fr *frame, cc *ssa.CallCommon, a []Value) Value {
			return VInt{IntC(int64(len(ctxOf(a[0]).events.events)))}
		}

		// ---------------- addresses
		addrString := func(ex *Exec, fr *frame, cc *ssa.CallCommon, a []Value) Value {
			if s, ok := a[0].(VStr); ok && s.Atom != nil {
				return VStr{Atom: s.Atom, N: 45}
			}
			if sl, ok := a[0].(VSlice); ok {
				// byte-level address: its textual rendering is modelled as the same bytes (an immutable string)
				ts, _ := ex.byteTerms(sl)
				allc := true
				for _, t := range ts {
					allc = allc && t.Const
				}
				if allc {
					raw := make([]byte, len(ts))
					for i, t := range ts {
						raw[i] = byte(t.I.Int64())
					}
					return concStr(string(raw))
				}
				return VStr{Bytes: append([]Term{}, ts...)}
			}
			return a[0]
		}
		m["(github.com/cosmos/cosmos-sdk/types.AccAddress).String"] = addrString
		m["(github.com/cosmos/cosmos-sdk/types.ValAddress).String"] = addrString
		m["(github.com/cosmos/cosmos-sdk/types.ConsAddress).String"] = addrString
		m["(github.com/cosmos/cosmos-sdk/types.AccAddress).Bytes"] = id
		m["(github.com/cosmos/cosmos-sdk/types.ValAddress).Bytes"] = id
		m["(github.com/cosmos/cosmos-sdk/types.AccAddress).Equals"] = func(ex *Exec, fr *frame, cc *ssa.CallCommon, a []Value) Value {
			return VBool{ex.bytesEq(a[0], a[1].(VIface).V)}
		}
		m["(github.com/cosmos/cosmos-sdk/types.AccAddress).Empty"] = func(ex *Exec, fr *frame, cc *ssa.CallCommon, a []Value) Value {
			switch x := a[0].(type) {
			case VSlice:
				return VBool{BoolC(x.Len == 0)}
			case VStr:
				if x.Conc != nil {
					return VBool{BoolC(len(*x.Conc) == 0)}
				}
				return VBool{BoolC(false)}
			}
			panic(unsupported{"AccAddress.Empty"})
		}
		m["(github.com/cosmos/cosmos-sdk/types.ValAddress).Empty"] = m["(github.com/cosmos/cosmos-sdk/types.AccAddress).Empty"]
		fromBech := func(ex *Exec, fr *frame, cc *ssa.CallCommon, a []Value) Value {
			if sl, ok := a[0].(VSlice); ok {
				// a byte-level address whose String() is modelled as the identity
				return VTuple{sl, nilErr()}
			}
			s := a[0].(VStr)
			if s.Atom != nil {
				// String/FromBech32 are mutually inverse injections on address atoms
				return VTuple{VStr{Atom: s.Atom, N: 20}, nilErr()}
			}
			if s.Conc != nil && (strings.HasPrefix(*s.Conc, "modaddr:") || strings.HasPrefix(*s.Conc, "addr:")) {
				return VTuple{a[0], nilErr()}
			}
			if s.Conc != nil && len(*s.Conc) == 20 {
				ts, _ := ex.byteTerms(s)
				return VTuple{termsToSlice(ex, append([]Term{}, ts...)), nilErr()}
			}
			if s.Bytes != nil && len(s.Bytes) == 20 {
				// byte-level strings of length 20 stand for the bech32 rendering of those 20 bytes (String() is the identity)
				return VTuple{termsToSlice(ex, append([]Term{}, s.Bytes...)), nilErr()}
			}
			return VTuple{VSlice{}, ex.mkErr("decoding bech32 failed", nil)}
		}
		m["github.com/cosmos/cosmos-sdk/types.AccAddressFromBech32"] = fromBech
		m["github.com/cosmos/cosmos-sdk/types.ValAddressFromBech32"] = fromBech
		must := func(ex *Exec, fr *frame, cc *ssa.CallCommon, a []Value) Value {
			r := fromBech(ex, fr, cc, a).(VTuple)
			if errOf(r[1]) != nil {
				panic(goPanic{"MustAccAddressFromBech32: invalid address"})
			}
			return r[0]
		}
		m["github.com/cosmos/cosmos-sdk/types.MustAccAddressFromBech32"] = must
		m["github.com/cosmos/cosmos-sdk/x/auth/types.NewModuleAddress"] = func(ex *Exec, fr *frame, cc *ssa.CallCommon, a []Value) Value {
			return concStr("modaddr:" + cstr(a[0]))
		}

		m["github.com/cosmos/cosmos-sdk/x/auth/types.NewModuleAddressOrBech32Address"] = func(ex *Exec, fr *frame, cc *ssa.CallCommon, a []Value) Value {
			s := a[0].(VStr)
			if s.Conc != nil && !strings.HasPrefix(*s.Conc, "modaddr:") {
				return concStr("modaddr:" + *s.Conc)
			}
			return a[0]
		}
		// ---------------- coins (single denom family; concrete denoms)
		m["github.com/cosmos/cosmos-sdk/types.NewCoin"] = func(ex *Exec, fr *frame, cc *ssa.CallCommon, a []Value) Value {
			if ex.decide(Lt(ti(a[1]), IntC(0))) {
				panic(goPanic{"negative coin amount"})
			}
			return VStruct{[]Value{a[0], a[1]}}
		}
		m["github.com/cosmos/cosmos-sdk/types.NewInt64Coin"] = m["github.com/cosmos/cosmos-sdk/types.NewCoin"]
		m["github.com/cosmos/cosmos-sdk/types.NewCoins"] = func(ex *Exec, fr *frame, cc *ssa.CallCommon, a []Value) Value {
			var out []Value
			for _, c := range sliceElems(a[0]) {
				cs := c.(VStruct)
				if ex.decide(Lt(ti(cs.F[1]), IntC(0))) {
					panic(goPanic{"invalid coin set: negative amount"})
				}
				if ex.decide(Eq(ti(cs.F[1]), IntC(0))) {
					continue // zero coins are removed
				}
				out = append(out, c)
			}
			sort.SliceStable(out, func(i, j int) bool { return cstr(out[i].(VStruct).F[0]) < cstr(out[j].(VStruct).F[0]) })
			for i := 1; i < len(out); i++ {
				if cstr(out[i].(VStruct).F[0]) == cstr(out[i-1].(VStruct).F[0]) {
					panic(goPanic{"invalid coin set: duplicate denomination"})
				}
			}
			if len(out) == 0 {
				return ex.mkSlice([]Value{})
			}
			return ex.mkSlice(out)
		}
		m["(github.com/cosmos/cosmos-sdk/types.Coins).AmountOf"] = func(ex *Exec, fr *frame, cc *ssa.CallCommon, a []Value) Value {
			sum := IntC(0)
			for _, c := range sliceElems(a[0]) {
				cs := c.(VStruct)
				sum = Add(sum, Ite(ex.strEq(cs.F[0].(VStr), a[1].(VStr)), ti(cs.F[1]), IntC(0)))
			}
			return VInt{sum}
		}
		// single-denomination arithmetic on coin sets
		coinsSum := func(ex *Exec, v Value) (string, Term, int) {
			denom := ""
			sum := IntC(0)
			es := sliceElems(v)
			for _, c := range es {
				cs := c.(VStruct)
				d := cstr(cs.F[0])
				if denom != "" && d != denom {
					panic(unsupported{"coin sets with several denominations"})
				}
				denom = d
				sum = Add(sum, ti(cs.F[1]))
			}
			return denom, sum, len(es)
		}
		mkCoins := func(ex *Exec, denom string, amt Term) Value {
			if ex.decide(Eq(amt, IntC(0))) {
				return ex.mkSlice([]Value{})
			}
			return ex.mkSlice([]Value{VStruct{[]Value{concStr(denom), VInt{amt}}}})
		}
		m["(github.com/cosmos/cosmos-sdk/types.Coins).Add"] = func(ex *Exec, fr *frame, cc *ssa.CallCommon, a []Value) Value {
			d1, s1, _ := coinsSum(ex, a[0])
			d2, s2, _ := coinsSum(ex, a[1])
			if d1 == "" {
				d1 = d2
			}
			if d2 != "" && d2 != d1 {
				panic(unsupported{"coin sets with several denominations"})
			}
			return mkCoins(ex, d1, ex.nameT(Add(s1, s2)))
		}
		m["(github.com/cosmos/cosmos-sdk/types.Coins).Sub"] = func(ex *Exec, fr *frame, cc *ssa.CallCommon, a []Value) Value {
			d1, s1, _ := coinsSum(ex, a[0])
			d2, s2, _ := coinsSum(ex, a[1])
			if d1 == "" {
				d1 = d2
			}
			if d2 != "" && d2 != d1 {
				panic(unsupported{"coin sets with several denominations"})
			}
			diff := ex.nameT(Sub(s1, s2))
			if ex.decide(Lt(diff, IntC(0))) {
				panic(goPanic{"negative coin amount"})
			}
			return mkCoins(ex, d1, diff)
		}
		m["(github.com/cosmos/cosmos-sdk/types.Coins).IsZero"] = func(ex *Exec, fr *frame, cc *ssa.CallCommon, a []Value) Value {
			r := BoolC(true)
			for _, c := range sliceElems(a[0]) {
				r = And(r, Eq(ti(c.(VStruct).F[1]), IntC(0)))
			}
			return VBool{r}
		}
		m["(github.com/cosmos/cosmos-sdk/types.Coins).Empty"] = func(ex *Exec, fr *frame, cc *ssa.CallCommon, a []Value) Value {
			return VBool{BoolC(len(sliceElems(a[0])) == 0)}
		}
		m["(github.com/cosmos/cosmos-sdk/types.Coins).IsAllPositive"] = func(ex *Exec, fr *frame, cc *ssa.CallCommon, a []Value) Value {
			es := sliceElems(a[0])
			if len(es) == 0 {
				return VBool{BoolC(false)}
			}
			r := BoolC(true)
			for _, c := range es {
				r = And(r, Gt(ti(c.(VStruct).F[1]), IntC(0)))
			}
			return VBool{r}
		}
		m["(github.com/cosmos/cosmos-sdk/types.Coins).String"] = func(ex *Exec, fr *frame, cc *ssa.CallCommon, a []Value) Value { return ex.freshAtom("coinstr") }
		m["(github.com/cosmos/cosmos-sdk/types.Coin).String"] = m["(github.com/cosmos/cosmos-sdk/types.Coins).String"]
		m["github.com/cosmos/cosmos-sdk/types.ValidateDenom"] = func(ex *Exec, fr *frame, cc *ssa.CallCommon, a []Value) Value { return nilErr() }

		// ---------------- collections: constructors
		m["cosmossdk.io/collections.NewSchemaBuilder"] = func(ex *Exec, fr *frame, cc *ssa.CallCommon, a []Value) Value {
			return VPtr{O: ex.newObj(VOpaque{Kind: "schemabuilder"})}
		}
		m["(*cosmossdk.io/collections.SchemaBuilder).Build"] = func(ex *Exec, fr *frame, cc *ssa.CallCommon, a []Value) Value {
			return VTuple{ex.zero(cc.Signature().Results().At(0).Type()), nilErr()}
		}
		m["cosmossdk.io/collections.NewPrefix"] = opaque("prefix")
		m["cosmossdk.io/collections.PairKeyCodec"] = opaque("codec")
		m["cosmossdk.io/collections.TripleKeyCodec"] = opaque("codec")
		m["github.com/cosmos/cosmos-sdk/codec.CollValue"] = opaque("codec")
		m["github.com/cosmos/cosmos-sdk/codec.BoolValue"] = opaque("codec")
		m["cosmossdk.io/collections.NewItem"] = func(ex *Exec, fr *frame, cc *ssa.CallCommon, a []Value) Value {
			return VOpaque{Kind: "item", Data: &itemState{name: ex.describe(a[2])}}
		}
		m["cosmossdk.io/collections.NewMap"] = func(ex *Exec, fr *frame, cc *ssa.CallCommon, a []Value) Value {
			return VOpaque{Kind: "map", Data: &collMap{name: ex.describe(a[2])}}
		}
		m["cosmossdk.io/collections.NewSequence"] = func(ex *Exec, fr *frame, cc *ssa.CallCommon, a []Value) Value {
			return VOpaque{Kind: "seq", Data: &seqState{name: ex.describe(a[2]), val: IntC(0)}}
		}
		newMulti := func(unique bool) intrinsic {
			return func(ex *Exec, fr *frame, cc *ssa.CallCommon, a []Value) Value {
				cl, ok := a[5].(VClos)
				if !ok {
					panic(unsupported{"index function"})
				}
				return VPtr{O: ex.newObj(VOpaque{Kind: "multi", Data: &multiIdx{name: ex.describe(a[2]), ref: cl, unique: unique}})}
			}
		}
		m["cosmossdk.io/collections/indexes.NewMulti"] = newMulti(false)
		m["cosmossdk.io/collections/indexes.NewUnique"] = newMulti(true)
		m["cosmossdk.io/collections/indexes.NewReversePair"] = func(ex *Exec, fr *frame, cc *ssa.CallCommon, a []Value) Value {
			return VPtr{O: ex.newObj(VOpaque{Kind: "multi", Data: &multiIdx{name: ex.describe(a[2]), unique: false, reverse: true}})}
		}
		m["cosmossdk.io/collections.NewIndexedMap"] = func(ex *Exec, fr *frame, cc *ssa.CallCommon, a []Value) Value {
			cm := &collMap{name: ex.describe(a[2])}
			// link the indexes (fields of the Indexes struct that are *Multi)
			var link func(v Value)
			link = func(v Value) {
				switch x := v.(type) {
				case VStruct:
					for _, f := range x.F {
						link(f)
					}
				case VPtr:
					if x.O != nil {
						if o, ok := x.O.V.(VOpaque); ok && o.Kind == "multi" {
							mi := o.Data.(*multiIdx)
							mi.parent = cm
							cm.multis = append(cm.multis, mi)
						}
					}
				}
			}
			link(a[5])
			return VPtr{O: ex.newObj(VStruct{[]Value{a[5], VSlice{}, VOpaque{Kind: "map", Data: cm}}})}
		}
		m["cosmossdk.io/collections.Join"] = func(ex *Exec, fr *frame, cc *ssa.CallCommon, a []Value) Value { return mkTuple(a[0], a[1]) }
		m["cosmossdk.io/collections.Join3"] = func(ex *Exec, fr *frame, cc *ssa.CallCommon, a []Value) Value { return mkTuple(a[0], a[1], a[2]) }
		kN := func(i int) intrinsic {
			return func(ex *Exec, fr *frame, cc *ssa.CallCommon, a []Value) Value {
				if o, ok := a[0].(VOpaque); ok && o.Kind == "tuple" {
					return o.Data.([]Value)[i]
				}
				return ex.zero(cc.Signature().Results().At(0).Type())
			}
		}
		m["(cosmossdk.io/collections.Pair[K1, K2]).K1"] = kN(0)
		m["(cosmossdk.io/collections.Pair[K1, K2]).K2"] = kN(1)
		m["(cosmossdk.io/collections.Triple[K1, K2, K3]).K1"] = kN(0)
		m["(cosmossdk.io/collections.Triple[K1, K2, K3]).K2"] = kN(1)
		m["(cosmossdk.io/collections.Triple[K1, K2, K3]).K3"] = kN(2)

		// ---------------- Item
		it := "(cosmossdk.io/collections.Item[V])."
		itemOf := func(v Value) *itemState { return v.(VOpaque).Data.(*itemState) }
		m[it+"Get"] = func(ex *Exec, fr *frame, cc *ssa.CallCommon, a []Value) Value {
			s := itemOf(a[0])
			if s.present {
				return VTuple{ex.deepCopy(s.val), nilErr()}
			}
			return VTuple{ex.zero(cc.Signature().Results().At(0).Type()), ex.collNotFound()}
		}
		m[it+"Set"] = func(ex *Exec, fr *frame, cc *ssa.CallCommon, a []Value) Value {
			s := itemOf(a[0])
			s.present, s.val = true, ex.deepCopy(a[2])
			return nilErr()
		}
		m[it+"Has"] = func(ex *Exec, fr *frame, cc *ssa.CallCommon, a []Value) Value {
			return VTuple{VBool{BoolC(itemOf(a[0]).present)}, nilErr()}
		}
		m[it+"Remove"] = func(ex *Exec, fr *frame, cc *ssa.CallCommon, a []Value) Value {
			itemOf(a[0]).present = false
			return nilErr()
		}
		// ---------------- Sequence
		sq := "(cosmossdk.io/collections.Sequence)."
		seqOf := func(v Value) *seqState { return v.(VOpaque).Data.(*seqState) }
		m[sq+"Peek"] = func(ex *Exec, fr *frame, cc *ssa.CallCommon, a []Value) Value {
			return VTuple{VInt{seqOf(a[0]).val}, nilErr()}
		}
		m[sq+"Next"] = func(ex *Exec, fr *frame, cc *ssa.CallCommon, a []Value) Value {
			s := seqOf(a[0])
			cur := s.val
			s.val = ex.wrap(Add(cur, IntC(1)), types.Typ[types.Uint64], true)
			return VTuple{VInt{cur}, nilErr()}
		}
		m[sq+"Set"] = func(ex *Exec, fr *frame, cc *ssa.CallCommon, a []Value) Value {
			seqOf(a[0]).val = ti(a[2])
			return nilErr()
		}
		// ---------------- Map / IndexedMap
		get := func(ex *Exec, fr *frame, cc *ssa.CallCommon, a []Value) Value {
			cm := collOf(a[0])
			for _, e := range cm.entries {
				if ex.decide(ex.collKeyEq(e.key, a[2])) {
					return VTuple{ex.deepCopy(e.val), nilErr()}
				}
			}
			return VTuple{ex.zero(cc.Signature().Results().At(0).Type()), ex.collNotFound()}
		}
		set := func(ex *Exec, fr *frame, cc *ssa.CallCommon, a []Value) Value {
			cm := collOf(a[0])
			for i, e := range cm.entries {
				if ex.decide(ex.collKeyEq(e.key, a[2])) {
					cm.entries[i].val = ex.deepCopy(a[3])
					return nilErr()
				}
			}
			cm.entries = append(cm.entries, collEntry{a[2], ex.deepCopy(a[3])})
			return nilErr()
		}
		has := func(ex *Exec, fr *frame, cc *ssa.CallCommon, a []Value) Value {
			cm := collOf(a[0])
			for _, e := range cm.entries {
				if ex.decide(ex.collKeyEq(e.key, a[2])) {
					return VTuple{VBool{BoolC(true)}, nilErr()}
				}
			}
			return VTuple{VBool{BoolC(false)}, nilErr()}
		}
		remove := func(ex *Exec, fr *frame, cc *ssa.CallCommon, a []Value) Value {
			cm := collOf(a[0])
			for i, e := range cm.entries {
				if ex.decide(ex.collKeyEq(e.key, a[2])) {
					cm.entries = append(cm.entries[:i:i], cm.entries[i+1:]...)
					return nilErr()
				}
			}
			return nilErr()
		}
		iterate := func(ex *Exec, fr *frame, cc *ssa.CallCommon, a []Value) Value {
			return VTuple{ex.iterValue(ex.selectRange(collOf(a[0]), a[2])), nilErr()}
		}
		walk := func(ex *Exec, fr *frame, cc *ssa.CallCommon, a []Value) Value {
			sel := ex.selectRange(collOf(a[0]), a[2])
			fn := a[3].(VClos)
			for _, e := range sel {
				r := ex.callFn(fr, cc, fn.Fn, []Value{e.key, ex.deepCopy(e.val)}, fn.Bind).(VTuple)
				if errOf(r[1]) != nil {
					return r[1]
				}
				if ex.decide(r[0].(VBool).T) {
					break
				}
			}
			return nilErr()
		}
		clear := func(ex *Exec, fr *frame, cc *ssa.CallCommon, a []Value) Value {
			cm := collOf(a[0])
			sel := ex.selectRange(cm, a[2])
			for _, s := range sel {
				for i, e := range cm.entries {
					if e.key == nil {
						continue
					}
					if ex.collKeyEq(e.key, s.key).Const && ex.collKeyEq(e.key, s.key).B || &cm.entries[i] == nil {
						cm.entries = append(cm.entries[:i:i], cm.entries[i+1:]...)
						break
					}
					if ex.decide(ex.collKeyEq(e.key, s.key)) {
						cm.entries = append(cm.entries[:i:i], cm.entries[i+1:]...)
						break
					}
				}
			}
			return nilErr()
		}
		for _, recv := range []string{"(cosmossdk.io/collections.Map[K, V]).", "(*cosmossdk.io/collections.IndexedMap[PrimaryKey, Value, Idx])."} {
			m[recv+"Get"] = get
			m[recv+"Set"] = set
			m[recv+"Has"] = has
			m[recv+"Remove"] = remove
			m[recv+"Iterate"] = iterate
			m[recv+"Walk"] = walk
			m[recv+"Clear"] = clear
		}
		// ---------------- rangers
		m["cosmossdk.io/collections.NewPrefixedPairRange"] = func(ex *Exec, fr *frame, cc *ssa.CallCommon, a []Value) Value {
			return VPtr{O: ex.newObj(VOpaque{Kind: "range", Data: &rangeSpec{prefix: []Value{a[0]}}})}
		}
		m["cosmossdk.io/collections.NewPrefixedTripleRange"] = m["cosmossdk.io/collections.NewPrefixedPairRange"]
		m["cosmossdk.io/collections.NewSuperPrefixedTripleRange"] = func(ex *Exec, fr *frame, cc *ssa.CallCommon, a []Value) Value {
			return VPtr{O: ex.newObj(VOpaque{Kind: "range", Data: &rangeSpec{prefix: []Value{a[0], a[1]}}})}
		}
		for _, pr := range []string{"(*cosmossdk.io/collections.PairRange[K1, K2]).", "(*cosmossdk.io/collections.Range[K]).", "(*cosmossdk.io/collections.TripleRange[K1, K2, K3])."} {
			m[pr+"Prefix"] = func(ex *Exec, fr *frame, cc *ssa.CallCommon, a []Value) Value {
				rangeOf(a[0]).prefix = []Value{a[1]}
				return a[0]
			}
			m[pr+"EndExclusive"] = func(ex *Exec, fr *frame, cc *ssa.CallCommon, a []Value) Value { rangeOf(a[0]).endExcl = a[1]; return a[0] }
			m[pr+"EndInclusive"] = func(ex *Exec, fr *frame, cc *ssa.CallCommon, a []Value) Value { rangeOf(a[0]).endIncl = a[1]; return a[0] }
			m[pr+"StartExclusive"] = func(ex *Exec, fr *frame, cc *ssa.CallCommon, a []Value) Value {
				rangeOf(a[0]).startExcl = a[1]
				return a[0]
			}
			m[pr+"StartInclusive"] = func(ex *Exec, fr *frame, cc *ssa.CallCommon, a []Value) Value {
				rangeOf(a[0]).startIncl = a[1]
				return a[0]
			}
			m[pr+"Descending"] = func(ex *Exec, fr *frame, cc *ssa.CallCommon, a []Value) Value { rangeOf(a[0]).descending = true; return a[0] }
		}
		// ---------------- iterators
		for _, itp := range []string{"(cosmossdk.io/collections.Iterator[K, V]).", "(cosmossdk.io/collections/indexes.MultiIterator[ReferenceKey, PrimaryKey]).", "(*cosmossdk.io/collections/indexes.MultiIterator[ReferenceKey, PrimaryKey])."} {
			m[itp+"Valid"] = func(ex *Exec, fr *frame, cc *ssa.CallCommon, a []Value) Value {
				s := iterOf(a[0])
				return VBool{BoolC(s.pos < len(s.entries))}
			}
			m[itp+"Next"] = func(ex *Exec, fr *frame, cc *ssa.CallCommon, a []Value) Value { iterOf(a[0]).pos++; return nil }
			m[itp+"Close"] = func(ex *Exec, fr *frame, cc *ssa.CallCommon, a []Value) Value { return nilErr() }
			cur := func(a []Value) collEntry {
				s := iterOf(a[0])
				if s.pos >= len(s.entries) {
					panic(goPanic{"iterator is not valid"})
				}
				return s.entries[s.pos]
			}
			m[itp+"Key"] = func(ex *Exec, fr *frame, cc *ssa.CallCommon, a []Value) Value { return VTuple{cur(a).key, nilErr()} }
			m[itp+"PrimaryKey"] = m[itp+"Key"]
			m[itp+"Value"] = func(ex *Exec, fr *frame, cc *ssa.CallCommon, a []Value) Value {
				return VTuple{ex.deepCopy(cur(a).val), nilErr()}
			}
			m[itp+"KeyValue"] = func(ex *Exec, fr *frame, cc *ssa.CallCommon, a []Value) Value {
				e := cur(a)
				return VTuple{VStruct{[]Value{e.key, ex.deepCopy(e.val)}}, nilErr()}
			}
			rest := func(a []Value) []collEntry {
				s := iterOf(a[0])
				r := s.entries[s.pos:]
				s.pos = len(s.entries)
				return r
			}
			m[itp+"Keys"] = func(ex *Exec, fr *frame, cc *ssa.CallCommon, a []Value) Value {
				var out []Value
				for _, e := range rest(a) {
					out = append(out, e.key)
				}
				return VTuple{ex.mkSlice(out), nilErr()}
			}
			m[itp+"PrimaryKeys"] = m[itp+"Keys"]
			m[itp+"Values"] = func(ex *Exec, fr *frame, cc *ssa.CallCommon, a []Value) Value {
				var out []Value
				for _, e := range rest(a) {
					out = append(out, ex.deepCopy(e.val))
				}
				return VTuple{ex.mkSlice(out), nilErr()}
			}
			m[itp+"KeyValues"] = func(ex *Exec, fr *frame, cc *ssa.CallCommon, a []Value) Value {
				var out []Value
				for _, e := range rest(a) {
					out = append(out, VStruct{[]Value{e.key, ex.deepCopy(e.val)}})
				}
				return VTuple{ex.mkSlice(out), nilErr()}
			}
		}
		// FullKey / FullKeys of a MultiIterator: Pair(refKey, primaryKey) - the ref key is recomputed
		for _, itp := range []string{"(cosmossdk.io/collections/indexes.MultiIterator[ReferenceKey, PrimaryKey]).", "(*cosmossdk.io/collections/indexes.MultiIterator[ReferenceKey, PrimaryKey])."} {
			m[itp+"FullKey"] = func(ex *Exec, fr *frame, cc *ssa.CallCommon, a []Value) Value {
				s := iterOf(a[0])
				e := s.entries[s.pos]
				return VTuple{mkTuple(e.val, e.key), nilErr()} // val slot carries the ref key for index iterators
			}
			m[itp+"FullKeys"] = func(ex *Exec, fr *frame, cc *ssa.CallCommon, a []Value) Value {
				s := iterOf(a[0])
				var out []Value
				for _, e := range s.entries[s.pos:] {
					out = append(out, mkTuple(e.val, e.key))
				}
				s.pos = len(s.entries)
				return VTuple{ex.mkSlice(out), nilErr()}
			}
		}
		// ---------------- Multi index
		mu := "(*cosmossdk.io/collections/indexes.Multi[ReferenceKey, PrimaryKey, Value])."
		match := func(ex *Exec, fr *frame, cc *ssa.CallCommon, a []Value) Value {
			mi := multiOf(a[0])
			if mi.parent == nil {
				panic(unsupported{"index not linked to a map"})
			}
			var hits []collEntry
			for _, e := range mi.parent.entries {
				ref := ex.refKeyOf(fr, cc, mi, e)
				if ex.decide(ex.collKeyEq(ref, a[2])) {
					hits = append(hits, collEntry{key: e.key, val: e.val})
				}
			}
			ex.sortEntries(hits, false)
			return VTuple{VOpaque{Kind: "iter", Data: &iterState{entries: hits}}, nilErr()}
		}
		m[mu+"MatchExact"] = match
		// Iterate over an index with a prefixed pair range (reference key = prefix), primary keys in order
		m[mu+"Iterate"] = func(ex *Exec, fr *frame, cc *ssa.CallCommon, a []Value) Value {
			mi := multiOf(a[0])
			spec := &rangeSpec{}
			if ri, ok := a[2].(VIface); ok && ri.Typ != nil {
				spec = rangeOf(ri.V)
			} else if rp, ok := a[2].(VPtr); ok && rp.O != nil {
				spec = rangeOf(rp)
			}
			if len(spec.prefix) != 1 || spec.startIncl != nil || spec.startExcl != nil || spec.endIncl != nil || spec.endExcl != nil {
				panic(unsupported{"index Iterate with this range"})
			}
			var hits []collEntry
			for _, e := range mi.parent.entries {
				ref := ex.refKeyOf(fr, cc, mi, e)
				if ex.decide(ex.collKeyEq(ref, spec.prefix[0])) {
					hits = append(hits, collEntry{key: e.key, val: e.val})
				}
			}
			ex.sortEntries(hits, spec.descending)
			return VTuple{VOpaque{Kind: "iter", Data: &iterState{entries: hits}}, nilErr()}
		}
		// IterateRaw over an index: [start, end) given as KeyCodec-encoded reference keys (kept structural, see
		// KeyCodec.Encode); entries ordered by (reference key, primary key)
		m[mu+"IterateRaw"] = func(ex *Exec, fr *frame, cc *ssa.CallCommon, a []Value) Value {
			mi := multiOf(a[0])
			if mi.parent == nil {
				panic(unsupported{"index not linked to a map"})
			}
			bound := func(v Value) Value {
				sl, ok := v.(VSlice)
				if !ok || sl.O == nil {
					return nil
				}
				k, ok := ex.rawKeys[sl.O]
				if !ok {
					panic(unsupported{"IterateRaw bound that was not produced by KeyCodec.Encode"})
				}
				return k
			}
			start, end := bound(a[2]), bound(a[3])
			desc := !ti(a[4]).Const || ti(a[4]).I.Sign() != 0
			if !ti(a[4]).Const {
				panic(unsupported{"IterateRaw with a symbolic order"})
			}
			type hit struct {
				ref Value
				e   collEntry
			}
			var hits []hit
			for _, e := range mi.parent.entries {
				ref := ex.refKeyOf(fr, cc, mi, e)
				in := BoolC(true)
				if start != nil {
					in = And(in, Not(ex.collKeyLess(ref, start)))
				}
				if end != nil {
					in = And(in, ex.collKeyLess(ref, end))
				}
				if ex.decide(in) {
					hits = append(hits, hit{ref, e})
				}
			}
			// order by (ref, primary key)
			for i := 1; i < len(hits); i++ {
				for j := i; j > 0; j-- {
					x, y := hits[j], hits[j-1]
					if desc {
						x, y = y, x
					}
					before := Or(ex.collKeyLess(x.ref, y.ref), And(ex.collKeyEq(x.ref, y.ref), ex.collKeyLess(x.e.key, y.e.key)))
					if !ex.decide(before) {
						break
					}
					hits[j], hits[j-1] = hits[j-1], hits[j]
				}
			}
			out := make([]collEntry, len(hits))
			for i, h := range hits {
				pk := h.e.key
				if mi.reverse {
					pk = pk.(VOpaque).Data.([]Value)[0] // index key of a ReversePair: Pair(K2, K1)
				}
				out[i] = collEntry{key: mkTuple(h.ref, pk), val: h.ref}
			}
			return VTuple{VOpaque{Kind: "iter", Data: &iterState{entries: out}}, nilErr()}
		}
		m["(*cosmossdk.io/collections/indexes.ReversePair[K1, K2, Value]).IterateRaw"] = m[mu+"IterateRaw"]
		collect := func(kv bool) intrinsic {
			return func(ex *Exec, fr *frame, cc *ssa.CallCommon, a []Value) Value {
				s := iterOf(a[2])
				var out []Value
				for _, e := range s.entries[s.pos:] {
					if kv {
						out = append(out, VStruct{[]Value{e.key, ex.deepCopy(e.val)}})
					} else {
						out = append(out, ex.deepCopy(e.val))
					}
				}
				s.pos = len(s.entries)
				return VTuple{ex.mkSlice(out), nilErr()}
			}
		}
		m["cosmossdk.io/collections/indexes.CollectValues"] = collect(false)
		m["cosmossdk.io/collections/indexes.CollectKeyValues"] = collect(true)

		// ---------------- codec: Marshal is an injective function of the value (structural equality)
		marshal := func(ex *Exec, fr *frame, cc *ssa.CallCommon, a []Value) Value {
			v := a[1]
			if iv, ok := v.(VIface); ok {
				v = iv.V
			}
			if p, ok := v.(VPtr); ok && p.O != nil {
				v = p.load()
			}
			return VOpaque{Kind: "marshaled", Data: ex.deepCopy(v)}
		}
		m["invoke:github.com/cosmos/cosmos-sdk/codec.BinaryCodec.MustMarshal"] = marshal
		m["invoke:github.com/cosmos/cosmos-sdk/codec.Codec.MustMarshal"] = marshal
		// ---------------- nd helpers for environments
		m["nd:ndEnv"] = func(ex *Exec, fr *frame, cc *ssa.CallCommon, a []Value) Value {
			res := cc.Signature().Results()
			return VTuple{ex.newCtx(), VIface{Typ: errMarkerType, V: VOpaque{Kind: "storeservice"}}, VIface{Typ: errMarkerType, V: VOpaque{Kind: "cdc"}}}[:res.Len()]
		}
		m["nd:ndCtx"] = func(ex *Exec, fr *frame, cc *ssa.CallCommon, a []Value) Value { return ex.newCtx() }
	})
}
