package main

import (
	"fmt"
	"go/types"
	"strings"

	"golang.org/x/tools/go/ssa"
)

type Value interface{}

type VInt struct{ T Term }
type VBool struct{ T Term }

// VStr: exactly one of Conc / Atom / Bytes is set.
type VStr struct {
	Conc  *string
	Atom  *Term  // uninterpreted identity (Int id)
	Bytes []Term // byte-level, concrete length
	N     int    // declared length of an atom (0 = unknown)
	Hexed bool   // the atom stands for the hex text of the identified bytes
	HexOf  []Term // the string is the lower-case hex text of these bytes (kept structural; expanded only on demand)
	IsHexOf bool
	HexNum bool  // hex numeral atom: id = 2*numeric value + spelling bit
	HexLead int  // hex numeral atom: zeros in front of the 64-digit zero-padded rendering (ndHexVal: 1, so the text starts with '0'; "%064x": 0)
}
type VStruct struct{ F []Value }
type VArr struct{ E []Value }
type VPtr struct {
	O    *Obj
	Path []int
}
type VSlice struct {
	O             *Obj // O.V is VArr; nil => nil slice
	Off, Len, Cap int
}
type VMap struct{ M *MapObj }
type VIface struct {
	Typ types.Type // nil => nil interface
	V   Value
}
type VClos struct {
	Fn   *ssa.Function
	Bind []Value
}
type VTuple []Value
type VOpaque struct {
	Kind string
	Data interface{}
}

type Obj struct {
	V  Value
	ID int
}
type MapObj struct {
	Keys []Value
	Vals []Value
}

type ErrVal struct {
	ID      string
	Msg     string
	Wrapped *ErrVal
}

func concStr(s string) VStr { return VStr{Conc: &s} }

func isNamed(t types.Type, path string) bool {
	n, ok := t.(*types.Named)
	if !ok {
		if a, ok2 := t.(*types.Alias); ok2 {
			return isNamed(types.Unalias(a), path)
		}
		return false
	}
	o := n.Obj()
	if o.Pkg() == nil {
		return false
	}
	return o.Pkg().Path()+"."+o.Name() == path
}

func namedPath(t types.Type) string {
	t = types.Unalias(t)
	if n, ok := t.(*types.Named); ok && n.Obj().Pkg() != nil {
		return n.Obj().Pkg().Path() + "." + n.Obj().Name()
	}
	return ""
}

// intrinsic value types: represented by a single symbolic Int.
func isBigIntLike(t types.Type) bool {
	switch namedPath(t) {
	case "cosmossdk.io/math.Int", "cosmossdk.io/math.LegacyDec", "cosmossdk.io/math.Uint":
		return true
	}
	return false
}

func (ex *Exec) zero(t types.Type) Value {
	switch np := namedPath(t); {
	case isBigIntLike(t), np == "math/big.Int":
		return VInt{IntC(0)}
	case np == "time.Time":
		return VInt{IntB(zeroTimeNanos)}
	case np == "github.com/cosmos/cosmos-sdk/types.Context":
		return ex.newCtx()
	case np == "sync.Mutex" || np == "sync.RWMutex":
		return VOpaque{Kind: "mutex"}
	case strings.HasPrefix(np, "cosmossdk.io/collections.") && !strings.HasPrefix(np, "cosmossdk.io/collections.Pair") && !strings.HasPrefix(np, "cosmossdk.io/collections.Triple") && !strings.HasPrefix(np, "cosmossdk.io/collections.KeyValue") && !strings.HasPrefix(np, "cosmossdk.io/collections.Range"):
		return VOpaque{Kind: "coll-zero"}
	}
	switch u := t.Underlying().(type) {
	case *types.Basic:
		switch {
		case u.Info()&types.IsBoolean != 0:
			return VBool{BoolC(false)}
		case u.Info()&types.IsInteger != 0:
			return VInt{IntC(0)}
		case u.Info()&types.IsString != 0:
			return concStr("")
		case u.Kind() == types.UnsafePointer:
			return VPtr{}
		case u.Info()&types.IsFloat != 0:
			return VOpaque{Kind: "float"}
		}
	case *types.Struct:
		f := make([]Value, u.NumFields())
		for i := range f {
			f[i] = ex.zero(u.Field(i).Type())
		}
		return VStruct{f}
	case *types.Array:
		e := make([]Value, int(u.Len()))
		for i := range e {
			e[i] = ex.zero(u.Elem())
		}
		return VArr{e}
	case *types.Pointer:
		return VPtr{}
	case *types.Slice:
		return VSlice{}
	case *types.Map:
		return VMap{}
	case *types.Interface:
		return VIface{}
	case *types.Signature:
		return VClos{}
	case *types.Chan:
		return VOpaque{Kind: "chan"}
	case *types.Tuple:
		tt := make(VTuple, u.Len())
		for i := range tt {
			tt[i] = ex.zero(u.At(i).Type())
		}
		return tt
	}
	panic(unsupported{fmt.Sprintf("zero value of %s", t)})
}

// functional update helpers -------------------------------------------------

func getPath(v Value, path []int) Value {
	for _, i := range path {
		switch x := v.(type) {
		case VStruct:
			v = x.F[i]
		case VArr:
			v = x.E[i]
		default:
			panic(fmt.Sprintf("getPath into %T", v))
		}
	}
	return v
}

func setPath(v Value, path []int, nv Value) Value {
	if len(path) == 0 {
		return nv
	}
	i := path[0]
	switch x := v.(type) {
	case VStruct:
		f := make([]Value, len(x.F))
		copy(f, x.F)
		f[i] = setPath(x.F[i], path[1:], nv)
		return VStruct{f}
	case VArr:
		e := make([]Value, len(x.E))
		copy(e, x.E)
		e[i] = setPath(x.E[i], path[1:], nv)
		return VArr{e}
	}
	panic(fmt.Sprintf("setPath into %T", v))
}

func (p VPtr) load() Value {
	if p.O == nil {
		panic(goPanic{"nil pointer dereference"})
	}
	return getPath(p.O.V, p.Path)
}
func (p VPtr) store(v Value) {
	if p.O == nil {
		panic(goPanic{"nil pointer dereference"})
	}
	p.O.V = setPath(p.O.V, p.Path, v)
}
func (p VPtr) sub(i int) VPtr {
	np := make([]int, len(p.Path)+1)
	copy(np, p.Path)
	np[len(p.Path)] = i
	return VPtr{p.O, np}
}

type unsupported struct{ what string }
type goPanic struct{ val interface{} }
type pathEnd struct{ why string }
